"""CLI:  vcheck.py <ID> [--tier quick|thorough] [--replay <file>]   (normally called through ./check)"""
import argparse
import os
import sys

HERE = os.path.dirname(os.path.abspath(__file__))
sys.path.insert(0, HERE)


def main():
    ap = argparse.ArgumentParser()
    ap.add_argument('prop')
    ap.add_argument('--tier', default=os.environ.get('VERIF_TIER', 'quick'), choices=['quick', 'thorough'])
    ap.add_argument('--replay', default=None)
    ap.add_argument('--seed', type=int, default=None)
    a = ap.parse_args()
    seed = a.seed if a.seed is not None else int(os.environ.get('VERIF_SEED', '1') or '1')
    from vlib import runner
    try:
        rc = runner.run_check(a.prop.upper(), a.tier, seed, a.replay)
    except Exception as e:  # noqa
        import traceback
        traceback.print_exc()
        print('HARNESS-ERROR property=%s %s' % (a.prop, e))
        rc = 2
    sys.exit(rc)


if __name__ == '__main__':
    main()
