#!/bin/sh
# restable.sh <ID-X> : re-run only the pinned suite with the seeded change applied and update verify.json
d=/verif/seeded/$1
D=$(mktemp -d /tmp/rest-XXXXXX)
flock /tmp/seedv-worktree.lock git -C /repo worktree add -q --detach "$D/w" HEAD || exit 3
(cd "$D/w" && git apply "$d/patch.diff") || exit 4
/tmp/seedtools/run_stable.py "$D/w" > "$D/stable.log" 2>&1; rc=$?
tail -3 "$D/stable.log"
python3 - "$d" "$rc" <<'PY'
import json,sys
p=sys.argv[1]+'/verify.json'; v=json.load(open(p)); v['stable_suite_exit_with_change']=sys.argv[2]; json.dump(v,open(p,'w'),indent=1)
PY
flock /tmp/seedv-worktree.lock git -C /repo worktree remove --force "$D/w"; rm -rf "$D"
