#!/bin/sh
# w5.sh <ID> : copy sixth-wave outputs as K/L and verify
p=$1
git -C /repo worktree remove --force /tmp/seed6/$p/w 2>/dev/null
mkdir -p /tmp/seed6/$p/out2
for f in patch.diff demo.py meta.json; do cp /tmp/seed6/$p/out/A.$f /tmp/seed6/$p/out2/K.$f; cp /tmp/seed6/$p/out/B.$f /tmp/seed6/$p/out2/L.$f; done
cd /verif
(tools/seed_verify.sh $p K /tmp/seed6/$p/out2 & tools/seed_verify.sh $p L /tmp/seed6/$p/out2 & wait)
