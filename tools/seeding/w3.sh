#!/bin/sh
# w3.sh <ID> : copy third-wave outputs as E/F and verify
p=$1
git -C /repo worktree remove --force /tmp/seed3/$p/w 2>/dev/null
mkdir -p /tmp/seed3/$p/out2
for f in patch.diff demo.py meta.json; do cp /tmp/seed3/$p/out/A.$f /tmp/seed3/$p/out2/E.$f; cp /tmp/seed3/$p/out/B.$f /tmp/seed3/$p/out2/F.$f; done
cd /verif
(tools/seed_verify.sh $p E /tmp/seed3/$p/out2 & tools/seed_verify.sh $p F /tmp/seed3/$p/out2 & wait)
