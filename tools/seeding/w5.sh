#!/bin/sh
# w5.sh <ID> : copy fifth-wave outputs as I/J and verify
p=$1
git -C /repo worktree remove --force /tmp/seed5/$p/w 2>/dev/null
mkdir -p /tmp/seed5/$p/out2
for f in patch.diff demo.py meta.json; do cp /tmp/seed5/$p/out/A.$f /tmp/seed5/$p/out2/I.$f; cp /tmp/seed5/$p/out/B.$f /tmp/seed5/$p/out2/J.$f; done
cd /verif
(tools/seed_verify.sh $p I /tmp/seed5/$p/out2 & tools/seed_verify.sh $p J /tmp/seed5/$p/out2 & wait)
