#!/bin/sh
# re-verify every kept seeded change with the checks recorded as catching it (quick tier), 4 at a time
cd /verif
ls -d seeded/*/ | sed 's#seeded/##; s#/##' | xargs -P 4 -I{} sh -c '
  d={}; id=${d%-*}; x=${d#*-}
  cs=$(/venv/bin/python -c "import json;print(\" \".join(c.split(\":\")[0] for c in json.load(open(\"/verif/seeded/$d/verify.json\"))[\"checks_run\"]))")
  SEED_CHECKS="$cs" SKIP_STABLE=1 /verif/tools/seed_verify.sh $id $x /nonexistent 2>&1 | head -1
' > /tmp/reverify.log 2>&1
echo done >> /tmp/reverify.log
