#!/venv/bin/python
"""usage: run_stable.py <worktree>  -- runs the pinned test suite in <worktree> and reports stable tests that no longer pass"""
import json, subprocess, sys, tempfile, os, xml.etree.ElementTree as ET
wt = os.path.abspath(sys.argv[1])
stable = set(json.load(open('/root/.vp/BASELINE.json'))['stable_pass'])
out = tempfile.mktemp(suffix='.xml')
env = dict(os.environ); env.pop('SCARED_VERIF', None); env['PYTHONPATH'] = wt
subprocess.run(['/venv/bin/python', '-m', 'pytest', '-q', '-p', 'no:cacheprovider', '--timeout=900', '--continue-on-collection-errors', '-x' if False else '-q', '--junitxml=' + out], cwd=wt, env=env, stdout=subprocess.DEVNULL, stderr=subprocess.DEVNULL)
passed = set()
for tc in ET.parse(out).getroot().iter('testcase'):
    if not any(ch.tag in ('failure', 'error', 'skipped') for ch in tc):
        passed.add('%s::%s' % (tc.get('classname'), tc.get('name')))
os.remove(out)
missing = sorted(stable - passed)
print('stable tests: %d, passing now: %d, BROKEN: %d' % (len(stable), len(stable & passed), len(missing)))
for m in missing[:40]:
    print('  BROKEN', m)
sys.exit(1 if missing else 0)
