#!/bin/sh
# w3.sh <ID> : copy third-wave outputs as E/F and verify
p=$1
git -C /repo worktree remove --force /tmp/seed4/$p/w 2>/dev/null
mkdir -p /tmp/seed4/$p/out2
for f in patch.diff demo.py meta.json; do cp /tmp/seed4/$p/out/A.$f /tmp/seed4/$p/out2/G.$f; cp /tmp/seed4/$p/out/B.$f /tmp/seed4/$p/out2/H.$f; done
cd /verif
(tools/seed_verify.sh $p G /tmp/seed4/$p/out2 & tools/seed_verify.sh $p H /tmp/seed4/$p/out2 & wait)
