"""Regenerate MANIFEST.json from the metadata of the check modules (run with ./tools/mkmanifest.sh)."""
import importlib
import json
import os
import sys

HERE = os.path.dirname(os.path.dirname(os.path.abspath(__file__)))
sys.path.insert(0, HERE)
NOT_APPLICABLE = {}


def main():
    props = [json.loads(l)['id'] for l in open(os.path.join(HERE, 'properties.jsonl'))]
    checks = []
    na = []
    for pid in props:
        path = os.path.join(HERE, 'checks', pid.lower() + '.py')
        if not os.path.exists(path):
            na.append({'property_id': pid, 'reason': NOT_APPLICABLE.get(pid, 'check not built yet in this session (property-based testing applies; see DESIGN.md §3)')})
            continue
        m = importlib.import_module('checks.' + pid.lower())
        checks.append({
            'property_id': pid,
            'quick_cmd': './check %s --tier quick' % pid,
            'thorough_cmd': './check %s --tier thorough' % pid,
            'evidence_file': 'evidence/%s.json' % pid,
            'replay_cmd_template': './check %s --replay {path}' % pid,
            'engine': 'vcheck',
            'level_claimed': {'category': m.LEVEL, 'text': m.LEVEL_TEXT, 'design_ref': getattr(m, 'DESIGN_REF', 'DESIGN.md §3 ' + pid)},
            'level_note': m.LEVEL_NOTE,
            'technique': m.TECHNIQUE,
        })
    hooks_commits = [l.strip() for l in open(os.path.join(HERE, 'hooks_commits.txt'))] if os.path.exists(os.path.join(HERE, 'hooks_commits.txt')) else []
    man = {
        'version': 1,
        'setup_cmd': './setup.sh',
        'hooks': {
            'guard': 'SCARED_VERIF',
            'enable': 'environment variable SCARED_VERIF=1 (exported by ./check); scared is pure Python + numba JIT, imported from /repo working tree via PYTHONPATH, nothing to build',
            'baseline_off_cmd': 'cd /repo && env -u SCARED_VERIF /venv/bin/python -m pytest -ra -q -p no:cacheprovider --timeout=900 --continue-on-collection-errors',
            'source_commits': hooks_commits,
            'add_only': True,
        },
        'engines': [{'name': 'vcheck', 'path': 'vcheck.py', 'serves_properties': [c['property_id'] for c in checks],
                     'kind_free_text': 'Hypothesis-driven and enumerated property checks against independent oracles, 16-way process fan-out, shrink-to-replay (vlib/)'}],
        'checks': checks,
        'notes': 'All checks: ./check <ID> [--tier quick|thorough] [--replay file]; exit 0 held / 1 VIOLATION / 2 harness error (inconclusive). See DESIGN.md.',
        'not_applicable': na,
    }
    with open(os.path.join(HERE, 'MANIFEST.json'), 'w') as f:
        json.dump(man, f, indent=1)
    print('checks:', [c['property_id'] for c in checks], 'not claimed:', [n['property_id'] for n in na])


main()
