#!/bin/sh
# tools/seed_verify.sh <ID> <X> [srcdir]   : verify a seeded change (demo passes clean / fails changed, stable tests pass, which checks catch it)
# keeps it as /verif/seeded/<ID>-<X>/ (patch.diff, demo.py, meta.json + verify.json written here)
ID="$1"; X="$2"; SRC="${3:-/tmp/seed/$ID/out}"; CHECKS="${SEED_CHECKS:-$ID}"
V="$(cd "$(dirname "$0")/.." && pwd)"
DST="$V/seeded/$ID-$X"
mkdir -p "$DST"
[ -f "$SRC/$X.patch.diff" ] && cp "$SRC/$X.patch.diff" "$DST/patch.diff" && cp "$SRC/$X.demo.py" "$DST/demo.py" && cp "$SRC/$X.meta.json" "$DST/meta.json"
D=$(mktemp -d /tmp/seedv-XXXXXX)
flock /tmp/seedv-worktree.lock git -C /repo worktree add -q --detach "$D/w" HEAD || exit 3
cd "$D/w"
PYTHONPATH="$D/w" timeout 900 /venv/bin/python "$DST/demo.py" > "$D/clean.log" 2>&1; RC_CLEAN=$?
if ! git apply "$DST/patch.diff"; then echo "PATCH DOES NOT APPLY"; flock /tmp/seedv-worktree.lock git -C /repo worktree remove --force "$D/w"; rm -rf "$D"; exit 4; fi
PYTHONPATH="$D/w" timeout 900 /venv/bin/python "$DST/demo.py" > "$D/changed.log" 2>&1; RC_CH=$?
if [ -z "$SKIP_STABLE" ]; then /tmp/seedtools/run_stable.py "$D/w" > "$D/stable.log" 2>&1; RC_ST=$?; else RC_ST=skipped; fi
RES=""
for C in $CHECKS; do
  VERIF_REPO="$D/w" "$V/check" "$C" --tier "${SEED_TIER:-quick}" > "$D/check-$C.log" 2>&1; rc=$?
  RES="$RES $C:rc=$rc"
  grep -E "^  C[0-9]+ \[" "$D/check-$C.log" | head -2 | cut -c1-300 > "$D/msg-$C.txt"
done
echo "SEED $ID-$X demo_clean=$RC_CLEAN demo_changed=$RC_CH stable=$RC_ST checks:$RES"
for C in $CHECKS; do sed 's/^/    /' "$D/msg-$C.txt"; done
[ "$RC_ST" != "0" ] && [ "$RC_ST" != "skipped" ] && tail -5 "$D/stable.log"
/venv/bin/python - "$DST" "$RC_CLEAN" "$RC_CH" "$RC_ST" "$RES" <<'PY'
import json, sys
dst, a, b, c, res = sys.argv[1:6]
import os
if c == 'skipped' and os.path.exists(dst + '/verify.json'):
    c = json.load(open(dst + '/verify.json')).get('stable_suite_exit_with_change', c)
json.dump({'demo_exit_clean_tree': int(a), 'demo_exit_with_change': int(b), 'stable_suite_exit_with_change': c, 'checks_run': res.split(),
           'commands': ['git apply patch.diff (scratch worktree of /repo HEAD)', 'PYTHONPATH=<worktree> /venv/bin/python demo.py', 'run pinned suite, compare with BASELINE stable_pass', 'VERIF_REPO=<worktree> ./check <ID> --tier quick']},
          open(dst + '/verify.json', 'w'), indent=1)
PY
flock /tmp/seedv-worktree.lock git -C /repo worktree remove --force "$D/w"; rm -rf "$D"
