#!/bin/sh
# tools/mutant.sh <ID> <file-relative-to-repo> <python-expr old> <new>  : run the quick check of <ID> against a scratch copy of /repo with one textual mutation
# usage: tools/mutant.sh C05 scared/aes/base.py 'old text' 'new text' [extra check args]
ID="$1"; F="$2"; OLD="$3"; NEW="$4"; shift 4
D=$(mktemp -d /tmp/mut-XXXXXX)
git -C /repo worktree add -q --detach "$D/w" HEAD || exit 3
OLD="$OLD" NEW="$NEW" /venv/bin/python - "$D/w/$F" <<'PY'
import os, sys
p = sys.argv[1]; s = open(p).read(); old = os.environ['OLD']; new = os.environ['NEW']
if s.count(old) < 1:
    print('MUTANT-ERROR: pattern not found'); sys.exit(4)
open(p, 'w').write(s.replace(old, new, 1))
PY
rc=$?
if [ $rc -eq 0 ]; then VERIF_REPO="$D/w" "$(dirname "$0")/../check" "$ID" "$@" | grep -E "VIOLATION|HARNESS|MUTANT| seed=|^  C" | head -${MUT_LINES:-4}; fi
git -C /repo worktree remove --force "$D/w"; rm -rf "$D"
