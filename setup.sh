#!/bin/sh
# Offline setup: make sure hypothesis is importable by the interpreter the checks use.
D="$(cd "$(dirname "$0")" && pwd)"
PY="${VERIF_PYTHON:-/venv/bin/python}"
if ! PYTHONPATH="$D/.deps" "$PY" -c "import hypothesis, numpy, scipy" 2>/dev/null; then
  "$PY" -m pip install --no-index --find-links /opt/veriftools/wheels --target "$D/.deps" hypothesis || exit 1
fi
PYTHONPATH="/repo:$D:$D/.deps" "$PY" -c "import hypothesis, numpy, scipy, numba, scared; print('setup ok: hypothesis', hypothesis.__version__)"
