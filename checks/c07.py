"""C07 — ready-made selection functions predict the real cipher state under the true key."""
import numpy as np
from hypothesis import strategies as st

from scared.aes import selection_functions as aes_sf
from scared.des import selection_functions as des_sf
import scared.aes.selection_functions.encrypt, scared.aes.selection_functions.decrypt  # noqa
import scared.des.selection_functions.encrypt, scared.des.selection_functions.decrypt  # noqa
from vlib import gen, hyp
from vlib.core import Violation, must
from vlib.oracles import aes_ref as AR, des_ref as DR

PROP = 'C07'
LEVEL = 'exploration'
TECHNIQUE = 'all 26 selection-function classes enumerated; Hypothesis-generated keys, batches, words and guesses selections; oracle = independent reference cipher state at the targeted operation + per-guess recomputation + slice relation'
RULE = ('cases = (namespace.class) x key size x generated key, batch of 1..6 inputs, words selection (None/int/list/slice/ndarray) and guesses (default/permutation/subset/range); '
        'non-trivial = non-default words or guesses, or AES key size != 128; distinct = digest of the whole case.')
LEVEL_TEXT = ('Every class of the four namespaces is exercised in every run with generated keys/inputs/selections; the hypothesis at the expected key is compared with the state of an '
              'independent reference cipher (not scared\'s own encrypt/decrypt) at the operation named in the class, every other guess column is recomputed from the definition, '
              'and words/guesses selections are compared with slices of the full output. Exploration: inputs sampled.')
LEVEL_NOTE = 'trusted: reference ciphers (self-tested each run); the class -> (round, step) table in this module, derived from the class docstrings and checked by hand against FIPS'
ASSUMPTIONS = ['reference ciphers correct (self-test)', 'target state of Last*/Delta* classes follows the table in checks/c07.py (DESIGN §3 C07)']

AES_CLASSES = {
    # name: (input tag, which round key, function(d_byte, g) building the hypothesis, real-state function(key, pt, ct))
    'encrypt.FirstAddRoundKey': ('plaintext', 'first'), 'encrypt.FirstSubBytes': ('plaintext', 'first'),
    'encrypt.LastAddRoundKey': ('ciphertext', 'last'), 'encrypt.LastSubBytes': ('ciphertext', 'last'), 'encrypt.DeltaRLastRounds': ('ciphertext', 'last'),
    'decrypt.FirstAddRoundKey': ('ciphertext', 'last'), 'decrypt.FirstSubBytes': ('ciphertext', 'last'), 'decrypt.DeltaRFirstRounds': ('ciphertext', 'last'),
    'decrypt.LastAddRoundKey': ('plaintext', 'first'), 'decrypt.LastSubBytes': ('plaintext', 'first'),
}
DES_CLASSES = {
    # name: (input tag, round key, reference mode, round, step) — see DESIGN §3 C07
    'encrypt.FirstAddRoundKey': ('plaintext', 0, 'encrypt', 0, 2), 'encrypt.FirstSboxes': ('plaintext', 0, 'encrypt', 0, 3),
    'encrypt.FeistelRFirstRounds': ('plaintext', 0, 'encrypt', 0, 7), 'encrypt.DeltaRFirstRounds': ('plaintext', 0, 'encrypt', 0, 8),
    'encrypt.LastAddRoundKey': ('ciphertext', 15, 'encrypt', 15, 2), 'encrypt.LastSboxes': ('ciphertext', 15, 'encrypt', 15, 3),
    'encrypt.FeistelRLastRounds': ('ciphertext', 15, 'encrypt', 13, 7), 'encrypt.DeltaRLastRounds': ('ciphertext', 15, 'encrypt', 14, 8),
    'decrypt.FirstAddRoundKey': ('ciphertext', 15, 'decrypt', 0, 2), 'decrypt.FirstSboxes': ('ciphertext', 15, 'decrypt', 0, 3),
    'decrypt.FeistelRFirstRounds': ('ciphertext', 15, 'decrypt', 0, 7), 'decrypt.DeltaRFirstRounds': ('ciphertext', 15, 'decrypt', 0, 8),
    'decrypt.LastAddRoundKey': ('plaintext', 0, 'decrypt', 15, 2), 'decrypt.LastSboxes': ('plaintext', 0, 'decrypt', 15, 3),
    'decrypt.FeistelRLastRounds': ('plaintext', 0, 'decrypt', 13, 7), 'decrypt.DeltaRLastRounds': ('plaintext', 0, 'decrypt', 14, 8),
}
DES_STEP_OF = {'AddRoundKey': 2, 'Sboxes': 3, 'FeistelR': 7, 'DeltaR': 8}


def _aes_real_state(name, key, pt, ct):
    """word vector (16) of the real cipher state the key words act on, from the independent reference"""
    nr = AR.nr_of(key)
    ns, cls = name.split('.')
    if ns == 'encrypt':
        if cls == 'FirstAddRoundKey':
            return AR.state_at(key, pt, 'encrypt', 0, 3)
        if cls == 'FirstSubBytes':
            return AR.state_at(key, pt, 'encrypt', 1, 0)
        if cls == 'LastAddRoundKey':
            return AR.state_at(key, pt, 'encrypt', nr, 1)
        if cls == 'LastSubBytes':
            return AR.shift(AR.state_at(key, pt, 'encrypt', nr - 1, 3))
        if cls == 'DeltaRLastRounds':
            return AR.shift([a ^ b for a, b in zip(AR.state_at(key, pt, 'encrypt', nr - 1, 3), ct)])
    else:
        if cls == 'FirstAddRoundKey':
            return AR.state_at(key, ct, 'decrypt', 0, 0)
        if cls == 'FirstSubBytes':
            return AR.shift(AR.state_at(key, ct, 'decrypt', 0, 3))
        if cls == 'DeltaRFirstRounds':
            return AR.shift([a ^ b for a, b in zip(AR.state_at(key, ct, 'decrypt', 0, 3), ct)])
        if cls == 'LastAddRoundKey':
            return AR.state_at(key, ct, 'decrypt', nr - 1, 3)
        if cls == 'LastSubBytes':
            return AR.state_at(key, ct, 'decrypt', nr - 1, 2)
    raise ValueError(name)


def _aes_hyp(name, d, g):
    """full hypothesis vector (16 words) for input block d and guess g, from the definition"""
    cls = name.split('.')[1]
    x = [b ^ g for b in d]
    if cls.endswith('AddRoundKey'):
        return x
    if name in ('encrypt.FirstSubBytes', 'decrypt.LastSubBytes'):
        return [AR.SB[b] for b in x]
    if name in ('encrypt.LastSubBytes', 'decrypt.FirstSubBytes'):
        return [AR.ISB[b] for b in x]
    sd = AR.shift(list(d))
    return [s ^ AR.ISB[b] for s, b in zip(sd, x)]


def _des_hyp(name, d, g):
    step = DES_CLASSES[name][4]
    ks = [DR.bits([g] * 8, 6)] * 16
    return DR.stop_point(list(d), [ks], 'encrypt', 0, 0, step)


def _apply_words(arr, words):
    if words is None:
        return arr
    if isinstance(words, list):
        words = np.array(words, dtype='int64')
    return arr[..., words]


def check_sf(ctx, case):
    cipher, name = case['cipher'], case['class']
    key, inputs = case['key'], case['inputs']              # inputs = plaintexts (n, 16|8), always plaintexts: ciphertexts come from the reference
    words, guesses = case['words'], case['guesses']
    ns, cls = name.split('.')
    mod = getattr(aes_sf if cipher == 'aes' else des_sf, ns)
    klass = getattr(mod, cls)
    kb = bytes(key)
    if cipher == 'aes':
        cts = np.array([AR.encrypt(kb, bytes(p)) for p in inputs], dtype='uint8')
        tag, which = AES_CLASSES[name]
        sched = AR.round_keys(kb)
        exp_key = sched[0] if which == 'first' else sched[-1]
        nwords, gmax = 16, 256
    else:
        sk = DR.split_keys(kb)
        cts = np.array([DR.crypt(list(map(int, p)), sk, 'encrypt') for p in inputs], dtype='uint8')
        tag, rk, mode, rnd, step = DES_CLASSES[name]
        exp_key = DR.schedule_words(kb)[rk]
        nwords, gmax = 8, 64
    data = inputs if tag == 'plaintext' else cts
    kwargs = {}
    if guesses is not None:
        kwargs['guesses'] = guesses
    if words is not None:
        kwargs['words'] = words
    # metadata names: default tags or custom ones, plus decoy entries that a trace set may also carry (the selection function receives ALL metadata)
    data_tag = case.get('data_tag') or tag
    key_tag = case.get('key_tag') or 'key'
    tagkw = {}
    if case.get('data_tag'):
        tagkw[tag + '_tag'] = data_tag
    if case.get('key_tag'):
        tagkw['key_tag'] = key_tag
    if case.get('asked_before'):
        # another ready-made selection function is asked for its expected key with the same master key beforehand (a campaign attacked at both ends)
        ns2, cls2 = case['asked_before'].split('.')
        ek2 = must(case, 'compute_expected_key of %s' % case['asked_before'], getattr(getattr(aes_sf if cipher == 'aes' else des_sf, ns2), cls2)().compute_expected_key, key=key.copy())
        if cipher == 'aes':
            exp2 = sched[0] if AES_CLASSES[case['asked_before']][1] == 'first' else sched[-1]
        else:
            exp2 = DR.schedule_words(kb)[DES_CLASSES[case['asked_before']][1]]
        if list(map(int, np.asarray(ek2).reshape(-1))) != list(map(int, exp2)):
            raise Violation('%s %s: compute_expected_key differs from the reference round key' % (cipher, case['asked_before']), case)
    if case.get('words_late') and words is not None:
        # the selection is set through the public attribute of an object built with the default (all words), in the form the constructor stores
        sf = must(case, '%s.%s(%s)' % (cipher, name, sorted(k for k in kwargs if k != 'words') + sorted(tagkw)), klass, **{k: v for k, v in kwargs.items() if k != 'words'}, **tagkw)
        sf.words = np.array(words, dtype='uint8') if isinstance(words, list) else words
    else:
        sf = must(case, '%s.%s(%s)' % (cipher, name, sorted(kwargs) + sorted(tagkw)), klass, **kwargs, **tagkw)
    full_sf = klass(**tagkw)
    if case.get('report_first'):
        # printing / formatting an object is read-only
        g_before = None if guesses is None else np.array(list(guesses) if isinstance(guesses, range) else guesses, copy=True)
        str(sf), repr(sf)
        if g_before is not None and not isinstance(guesses, range) and not np.array_equal(np.asarray(guesses), g_before):
            raise Violation('%s %s: str() of the selection function changed the guesses array given by the caller' % (cipher, name), case)
    arr = data.astype(case['dtype'])
    meta = {data_tag: arr}
    for extra in case.get('extra_meta') or []:
        if extra not in meta:
            meta[extra] = np.roll(arr, 1, axis=-1) ^ 0x33          # decoy with the same shape and other content
    if case.get('prime'):
        # an earlier call with the same array object and other contents, then overwritten in place
        buf = arr.copy()
        buf[...] = np.roll(arr, 2, axis=-1)
        must(case, 'selection function priming call', sf, **dict(meta, **{data_tag: buf}))
        buf[...] = arr
        meta[data_tag] = buf
    out = must(case, 'selection function call', sf, **meta)
    full = must(case, 'default selection function call', full_sf, **meta)
    if gen.layout_of(case, 7) in ('F', 'strided', 'negstride'):
        # both results are kept while the selection functions are called again on other data of the same shape: they must not change
        other = dict(meta, **{data_tag: np.roll(meta[data_tag], 1, axis=-1)})
        try:
            sf(**other)
            full_sf(**other)
        except Exception:
            pass
    n = len(inputs)
    g_list = list(range(gmax)) if guesses is None else [int(v) for v in guesses]
    # (1) shape and slice relation
    exp_shape = (n, len(g_list)) + np.zeros(nwords)[... if words is None else (np.array(words) if isinstance(words, list) else words)].shape
    if out.shape != exp_shape:
        raise Violation('%s %s: output shape %s, expected (traces, guesses, words) = %s' % (cipher, name, out.shape, exp_shape), case)
    if full.shape != (n, gmax, nwords):
        raise Violation('%s %s: default output shape %s' % (cipher, name, full.shape), case)
    sl = _apply_words(full[:, np.array(g_list, dtype='int64'), :], words)
    if not np.array_equal(out, sl):
        raise Violation('%s %s: words/guesses selection is not the corresponding slice of the full output' % (cipher, name), case)
    # (2) every guess column from the definition (checked on the full output: all guesses x all words)
    hyp_fn = _aes_hyp if cipher == 'aes' else _des_hyp
    check_g = range(gmax) if case.get('all_guesses') else sorted(set(g_list[:4] + [int(k) for k in exp_key]))
    for t in range(n):
        d = [int(v) for v in data[t]]
        for g in check_g:
            e = hyp_fn(name, d, g)
            if [int(v) for v in full[t, g]] != e:
                raise Violation('%s %s: guess %d of trace %d is not the targeted computation with that guess (got %s expected %s)' % (
                    cipher, name, g, t, full[t, g].tolist(), e), case)
    # (3) expected key and the real cipher state under the true key
    kmeta = {key_tag: key}
    for extra in case.get('extra_meta') or []:
        if extra not in kmeta and extra in ('key', 'data', 'foo'):
            kmeta[extra] = np.roll(key, 1) ^ 0x55
    if case.get('other_key_first'):
        # the same object is first asked about another master key (another device of the campaign)
        must(case, 'compute_expected_key (another key, asked first)', sf.compute_expected_key, **dict(kmeta, **{key_tag: 255 - np.array(key, copy=True)}))
    kbuf = np.array(key, copy=True)
    kmeta[key_tag] = kbuf
    ek = must(case, 'compute_expected_key', sf.compute_expected_key, **kmeta)
    # the caller's key buffer is refilled for the next device while the expected key is still held: the held value is that of the key it was asked for
    ek_then = np.array(ek, copy=True)
    kbuf[...] = 255 - kbuf
    if not np.array_equal(np.asarray(ek), ek_then):
        raise Violation('%s %s: the expected key returned earlier changed when the caller refilled its key buffer' % (cipher, name), case)
    ek = ek_then
    if list(map(int, np.asarray(ek).reshape(-1))) != list(map(int, exp_key)):
        raise Violation('%s %s: compute_expected_key differs from the reference %s round key' % (cipher, name, 'first/last'), case)
    for t in range(n):
        if cipher == 'aes':
            real = _aes_real_state(name, kb, bytes(inputs[t]), bytes(cts[t]))
        else:
            src = inputs[t] if mode == 'encrypt' else cts[t]
            real = DR.stop_point(list(map(int, src)), sk, mode, 0, rnd, step)
        got = [int(full[t, int(exp_key[w]), w]) for w in range(nwords)]
        if got != [int(v) for v in real]:
            raise Violation('%s %s: hypothesis at the expected key differs from the real cipher state (trace %d: got %s, real %s)' % (cipher, name, t, got, list(real)), case)
    nontrivial = words is not None or guesses is not None or (cipher == 'aes' and len(key) != 16)
    ctx.case(case, nontrivial, ['%s.%s' % (cipher, name), 'words:' + type(words).__name__, 'guesses:' + ('default' if guesses is None else type(guesses).__name__),
                                'keysize:%d' % len(key)] + (['traces==guesses'] if n == len(g_list) else []) + (['custom_tags'] if tagkw else [])
             + (['decoy_metadata:' + '+'.join(sorted(case.get('extra_meta')))] if case.get('extra_meta') else []) + (['same_array_reused'] if case.get('prime') else []) + (['other_expected_key_asked_before'] if case.get('asked_before') else []) + (['str_before_use'] if case.get('report_first') else []) + (['asked_about_another_key_first'] if case.get('other_key_first') else []) + (['words_attribute_set_after_construction'] if case.get('words_late') and words is not None else []))


@st.composite
def sf_cases(draw, cipher, name):
    nwords, gmax, blk = (16, 256, 16) if cipher == 'aes' else (8, 64, 8)
    ks = draw(st.sampled_from([16, 24, 32])) if cipher == 'aes' else 8
    n = draw(st.integers(1, 6))
    key = np.frombuffer(draw(st.binary(min_size=ks, max_size=ks)), dtype='uint8').copy()
    inputs = np.frombuffer(draw(st.binary(min_size=n * blk, max_size=n * blk)), dtype='uint8').reshape(n, blk).copy()
    wk = draw(st.sampled_from(['none', 'int', 'list', 'slice', 'ndarray']))
    if wk == 'none':
        words = None
    elif wk == 'int':
        words = draw(st.integers(0, nwords - 1))
    elif wk == 'list':
        words = draw(st.lists(st.integers(0, nwords - 1), min_size=1, max_size=6))
    elif wk == 'slice':
        a = draw(st.integers(0, nwords - 1))
        words = slice(a, draw(st.integers(a + 1, nwords)), draw(st.sampled_from([None, 1, 2, 3])))
    else:
        words = np.array(draw(st.lists(st.integers(0, nwords - 1), min_size=1, max_size=6)), dtype=draw(st.sampled_from(['uint8', 'int64', 'int32'])))
    gk = draw(st.sampled_from(['default', 'perm', 'subset', 'range', 'range_step', 'n']))
    if gk == 'default':
        guesses = None
    elif gk == 'perm':
        guesses = np.array(draw(st.permutations(list(range(gmax)))), dtype='uint8')
    elif gk == 'subset':
        guesses = np.array(draw(st.lists(st.integers(0, gmax - 1), min_size=1, max_size=8)), dtype=draw(st.sampled_from(['uint8', 'int16', 'int64'])))
    elif gk == 'range':
        a = draw(st.integers(0, gmax - 2))
        guesses = range(a, draw(st.integers(a + 1, gmax)))
    elif gk == 'range_step':
        # ranges with a step, also descending ones
        guesses = draw(st.sampled_from([range(0, gmax, 2), range(1, gmax, 3), range(gmax - 1, -1, -1), range(gmax - 1, 0, -5), range(0, gmax, gmax // 2)]))
    else:
        guesses = np.array(draw(st.lists(st.integers(0, gmax - 1), min_size=n, max_size=n)), dtype='uint8')   # traces == guesses
    return {'kind': 'sf', 'cipher': cipher, 'class': name, 'key': key, 'inputs': inputs, 'words': words, 'guesses': guesses,
            'dtype': draw(st.sampled_from(['uint8', 'uint8', 'int16', 'int64'])), 'all_guesses': draw(st.integers(0, 9)) == 0,
            'data_tag': draw(st.sampled_from([None, None, 'pt', 'data', 'input'])), 'key_tag': draw(st.sampled_from([None, None, 'k', 'masterkey'])),
            'extra_meta': draw(st.lists(st.sampled_from(['data', 'key', 'plaintext', 'ciphertext', 'foo']), max_size=3, unique=True)), 'prime': draw(st.booleans()),
            'words_late': draw(st.integers(0, 3)) == 0, 'report_first': draw(st.booleans()), 'other_key_first': draw(st.booleans()),
            'asked_before': draw(st.sampled_from(['', ''] + [c for c in (AES_CLASSES if cipher == 'aes' else DES_CLASSES)]))}


def unit_class(ctx, cipher, names, n):
    for name in names:
        if not hyp.run(ctx, sf_cases(cipher, name), check_sf, n):
            return


def units(tier):
    q = tier == 'quick'
    us = []
    for name in AES_CLASSES:
        us.append({'name': 'aes.' + name, 'fn': 'unit_class', 'kwargs': {'cipher': 'aes', 'names': [name], 'n': 60 if q else 3000}})
    names = list(DES_CLASSES)
    for i in range(0, len(names), 2 if q else 1):
        grp = names[i:i + (2 if q else 1)]
        us.append({'name': 'des.' + '+'.join(grp), 'fn': 'unit_class', 'kwargs': {'cipher': 'des', 'names': grp, 'n': 30 if q else 1500}})
    return us


def selftest():
    return AR.selftest() + ' ' + DR.selftest()


def replay(ctx, case):
    check_sf(ctx, case)


# dimensions added after the fourth and fifth round of seeded changes (DESIGN.md 8.3, 8.4); part of the rule reported in the evidence
RULE += ' Added with the fourth and fifth round of seeded changes: words set through the attribute after construction; another class\'s expected key asked first; expected key held while the key buffer is refilled.'
