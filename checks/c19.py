"""C19 — signal helpers equal windowed definitions; peak search keeps isolated maxima."""
import math
from fractions import Fraction

import numpy as np
from hypothesis import strategies as st, target
from hypothesis.control import currently_in_test_context
from hypothesis.extra import numpy as hnp

from scared import signal_processing as sp
from vlib import gen, hyp
from vlib.core import Violation, must

PROP = 'C19'
LEVEL = 'exploration'
TECHNIQUE = 'Hypothesis-generated small signals over a small alphabet (ties/plateaus frequent) with every window/axis/threshold/distance; oracles = naive per-window statistics in exact rationals, validity predicate for find_peaks, linear-scan model for find_width'
RULE = ('moving_*: n-D int/float arrays x every axis x window 1..len; pattern detection: 1-D trace/pattern of all length pairs up to 30; pad/extract_around_indexes: generated placements/modes; '
        'find_peaks: 1-D arrays of length 1..24 over a small alphabet and floats x min_peak_distance 0..len+2 x thresholds incl. +-inf; find_width: same arrays x direction x threshold x width bounds. '
        'Non-trivial: moving = window>1 and ndim>1 or axis!=last; peaks = at least one candidate dropped; width = at least one run found or rejected by bounds; others always. Distinct = digest of the case.')
LEVEL_TEXT = ('Signals are short and over small alphabets so that ties, plateaus, end peaks and boundary runs are dense in the generated population; find_peaks is checked with a validity predicate '
              '(many outputs are admissible) in both directions (nothing invented, nothing isolated lost), find_width against an exact model. Exploration: input space sampled.')
LEVEL_NOTE = 'trusted: exact rational arithmetic (fractions.Fraction) for window statistics, first-order error bounds for the cumulative-sum implementation'
ASSUMPTIONS = ['zero-variance windows: std/skew/kurtosis/correlation/bcdc are undefined and not asserted', 'extract_around_indexes windows lie inside the array (negative wrap is undocumented)',
               'tolerances are first-order bounds of the documented cumulative-sum/moment formulas times 8']
C = 8.0
EPS = 2.0 ** -52


def _fr(v):
    return Fraction(int(v)) if isinstance(v, (int, np.integer)) else Fraction(float(v))


# ------------------------------------------------------------------------------------------------
def check_moving(ctx, case):
    op, data, w, axis = case['op'], case['data'], case['window'], case['axis']
    d0 = data.copy()
    f = getattr(sp, 'moving_' + op)
    import warnings
    with warnings.catch_warnings():
        warnings.simplefilter('ignore')
        out = must(case, 'moving_%s(window=%d, axis=%s) on %s%s' % (op, w, axis, data.dtype, data.shape), f, gen.L(case, data), w, **({} if axis is None else {'axis': axis}))
    ax = data.ndim - 1 if axis is None else axis % data.ndim
    n = data.shape[ax]
    exp_shape = tuple(n - w + 1 if i == ax else s for i, s in enumerate(data.shape))
    if np.shape(out) != exp_shape:
        raise Violation('moving_%s: result shape %s, expected %s' % (op, np.shape(out), exp_shape), case)
    exact = data.dtype.kind in 'iu'
    F = 1.0 if exact else float(n)
    lanes_in = np.moveaxis(data, ax, -1).reshape(-1, n)
    lanes_out = np.moveaxis(np.asarray(out), ax, -1).reshape(-1, n - w + 1)
    asserted = 0
    for lane, res in zip(lanes_in, lanes_out):
        xs = [_fr(v) for v in lane]
        tot = [sum(abs(float(x)) ** k for x in xs) for k in (1, 2, 3, 4)]
        for i in range(n - w + 1):
            win = xs[i:i + w]
            m = [sum(x ** k for x in win) / w for k in (1, 2, 3, 4)]
            a = [sum(abs(float(x)) ** k for x in win) / w for k in (1, 2, 3, 4)]
            m1, m2, m3, m4 = (float(v) for v in m)
            e = [F * EPS * tot[k] / w + EPS * a[k] for k in range(4)]
            v = m[1] - m[0] ** 2
            vf = float(v)
            ev = e[1] + 2 * abs(m1) * e[0] + EPS * (a[1] + m1 * m1)
            got = float(res[i])
            if op == 'sum':
                expv, tol = float(m[0] * w), w * e[0]
            elif op == 'mean':
                expv, tol = m1, e[0]
            elif op == 'var':
                expv, tol = vf, ev
            else:
                if v == 0 or vf <= 16 * C * ev:
                    ctx.count('skipped_zero_or_tiny_variance_window')
                    continue
                if op == 'std':
                    expv, tol = math.sqrt(vf), ev / (2 * math.sqrt(vf)) + EPS * math.sqrt(vf)
                elif op == 'skew':
                    mu3 = sum((x - m[0]) ** 3 for x in win) / w
                    expv = float(mu3) / vf ** 1.5
                    en = e[2] + 3 * (abs(m1) * ev + vf * e[0]) + 3 * m1 * m1 * e[0] + EPS * (a[2] + 3 * abs(m1) * vf + abs(m1) ** 3)
                    tol = en / vf ** 1.5 + abs(expv) * 1.5 * ev / vf + 4 * EPS * abs(expv)
                else:
                    mu4 = sum((x - m[0]) ** 4 for x in win) / w
                    ratio = float(mu4) / vf ** 2
                    expv = ratio - 3
                    en = (e[3] + 4 * (abs(m3) * e[0] + abs(m1) * e[2]) + 6 * (m1 * m1 * ev + 2 * abs(vf * m1) * e[0]) + 12 * abs(m1) ** 3 * e[0]
                          + EPS * (a[3] + 4 * a[2] * abs(m1) + 6 * vf * m1 * m1 + 3 * m1 ** 4))
                    tol = en / vf ** 2 + abs(ratio) * 2 * ev / vf + 4 * EPS * (abs(ratio) + 3)
            asserted += 1
            if not abs(got - expv) <= C * tol + 1e-300:
                raise Violation('moving_%s(window=%d, axis=%s): window %d of a lane gives %r, naive definition %r (tol %.3g)' % (op, w, axis, i, got, expv, C * tol), case)
    if not np.array_equal(data, d0):
        raise Violation('moving_%s modified its input' % op, case)
    ctx.case(case, w > 1 and asserted > 0 and (data.ndim > 1 or w < n), ['moving_' + op, 'ndim:%d' % data.ndim, 'axis:last' if ax == data.ndim - 1 else 'axis:other',
             'window=len' if w == n else ('window=1' if w == 1 else 'window:inner'), 'int' if exact else 'float'])


# ------------------------------------------------------------------------------------------------
def check_pattern(ctx, case):
    op, trace, pattern = case['op'], case['trace'], case['pattern']
    import warnings
    t_arg, p_arg = gen.L(case, trace), gen.L(case, pattern, 1)
    if case.get('pattern_view') is not None:
        # the pattern is a VIEW of the trace itself (the usual way to cut a reference pattern out of a trace)
        t_arg = np.array(trace, copy=True)
        i0 = int(case['pattern_view'])
        p_arg = t_arg[i0:i0 + len(pattern)]
    with warnings.catch_warnings():
        warnings.simplefilter('ignore')
        out = must(case, '%s(trace %d, pattern %d)' % (op, len(trace), len(pattern)), getattr(sp, op), t_arg, p_arg)
    if not (np.array_equal(t_arg, trace, equal_nan=True) and np.array_equal(p_arg, pattern, equal_nan=True)):
        raise Violation('%s modified its input arrays' % op, case)
    n, N = len(pattern), len(trace)
    if np.shape(out) != (N - n + 1,):
        raise Violation('%s: result shape %s, expected (%d,)' % (op, np.shape(out), N - n + 1), case)
    ys = [_fr(v) for v in pattern]
    xs_all = [_fr(v) for v in trace]
    exact = trace.dtype.kind in 'iu' and pattern.dtype.kind in 'iu'
    F = 1.0 if exact else float(N)
    tot1 = sum(abs(float(x)) for x in xs_all)
    tot2 = sum(float(x) ** 2 for x in xs_all)
    sy, syy = sum(ys), sum(y * y for y in ys)
    asserted = 0
    for i in range(N - n + 1):
        xs = xs_all[i:i + n]
        sx, sxx = sum(xs), sum(x * x for x in xs)
        sxy = sum(x * y for x, y in zip(xs, ys))
        axy = float(sum(abs(x * y) for x, y in zip(xs, ys)))
        e_sx = F * EPS * tot1 + EPS * abs(float(sx))
        e_sxx = F * EPS * tot2 + EPS * float(sxx)
        e_sxy = (n + 1) * EPS * axy
        got = float(out[i])
        if op == 'correlation':
            vx, vy = sxx - sx * sx / n, syy - sy * sy / n
            num = sxy - sx * sy / n
            e_num = e_sxy + abs(float(sy)) / n * e_sx + EPS * (abs(float(sxy)) + abs(float(sx * sy)) / n) * 2
            e_vx = e_sxx + 2 * abs(float(sx)) / n * e_sx + EPS * (float(sxx) + float(sx * sx) / n) * 2
            e_vy = EPS * (float(syy) + float(sy * sy) / n) * (n + 3)
            if vx == 0 or vy == 0 or float(vx) <= 16 * C * e_vx or float(vy) <= 16 * C * e_vy:
                ctx.count('skipped_zero_or_tiny_variance_window')
                continue
            den = math.sqrt(float(vx) * float(vy))
            expv = float(num) / den
            tol = e_num / den + abs(expv) * (e_vx / float(vx) + e_vy / float(vy)) / 2 * 1.01 + 4 * EPS * abs(expv)
        elif op == 'distance':
            d2 = sum((x - y) ** 2 for x, y in zip(xs, ys))
            delta = C * (e_sxx + EPS * (float(sxx) + float(syy)) * (n + 2) + 2 * e_sxy)
            expv = math.sqrt(float(d2))
            lo, hi = math.sqrt(max(float(d2) - delta, 0.0)), math.sqrt(float(d2) + delta)
            if not (lo * (1 - 4 * EPS) - 1e-300 <= got <= hi * (1 + 4 * EPS) + 1e-300):
                raise Violation('distance: window %d gives %r, Euclidean distance is %r' % (i, got, expv), case)
            asserted += 1
            continue
        else:  # bcdc = std(x-y)/std(x+y)
            dm = [x - y for x, y in zip(xs, ys)]
            dp = [x + y for x, y in zip(xs, ys)]
            vn = sum(v * v for v in dm) / n - (sum(dm) / n) ** 2
            vd = sum(v * v for v in dp) / n - (sum(dp) / n) ** 2
            mag = (float(sxx) + float(syy) + 2 * axy) / n + ((abs(float(sx)) + abs(float(sy))) / n) ** 2
            delta = C * ((e_sxx + 2 * e_sxy) / n + 2 * (abs(float(sx)) + abs(float(sy))) / n * e_sx / n + (n + 4) * EPS * mag)
            if vd == 0 or float(vd) <= 16 * delta:
                ctx.count('skipped_zero_or_tiny_variance_window')
                continue
            expv = math.sqrt(float(vn) / float(vd))
            lo = math.sqrt(max(float(vn) - delta, 0.0) / (float(vd) + delta))
            hi = math.sqrt((float(vn) + delta) / (float(vd) - delta))
            if not (lo * (1 - 8 * EPS) - 1e-300 <= got <= hi * (1 + 8 * EPS) + 1e-300):
                raise Violation('bcdc: window %d gives %r, std(x-y)/std(x+y) is %r' % (i, got, expv), case)
            asserted += 1
            continue
        asserted += 1
        if not abs(got - expv) <= C * tol + 1e-300:
            raise Violation('%s: window %d gives %r, definition %r (tol %.3g)' % (op, i, got, expv, C * tol), case)
    ctx.case(case, asserted > 0, ['pattern:' + op, 'int' if exact else 'float'] + (['unit:%g' % case['unit']] if case.get('unit', 1.0) != 1.0 else []))


# ------------------------------------------------------------------------------------------------
def check_pad(ctx, case):
    a, shape, offsets, pw = case['array'], case['target_shape'], case['offsets'], case['pad_with']
    kw = {}
    if offsets is not None:
        kw['offsets'] = offsets
    if pw is not None:
        kw['pad_with'] = pw
    out = must(case, 'pad', sp.pad, a, shape, **kw)
    off = offsets if offsets is not None else [0] * a.ndim
    if np.shape(out) != tuple(shape):
        raise Violation('pad: result shape %s, expected %s' % (np.shape(out), tuple(shape)), case)
    fill = 0 if pw is None else pw
    for idx in np.ndindex(*shape):
        src = tuple(i - o for i, o in zip(idx, off))
        inside = all(0 <= s < d for s, d in zip(src, a.shape))
        e = a[src] if inside else fill
        if out[idx] != e:
            raise Violation('pad: element %s is %r, expected %r' % (idx, out[idx], e), case)
    ctx.case(case, True, ['pad', 'ndim:%d' % a.ndim])


def check_extract(ctx, case):
    data, idx, before, after, mode = case['data'], case['indexes'], case['before'], case['after'], case['mode']
    m = {'stack': sp.ExtractMode.STACK, 'concatenate': sp.ExtractMode.CONCATENATE, 'average': sp.ExtractMode.AVERAGE, None: None}[mode]
    out = must(case, 'extract_around_indexes(mode=%s)' % mode, sp.extract_around_indexes, gen.L(case, data), idx, before, after, **({} if m is None else {'mode': m}))
    rows = [[data[int(i) + k] for k in range(-before, after + 1)] for i in idx]
    if mode in (None, 'stack'):
        exp = np.array(rows, dtype=data.dtype).reshape(len(idx), before + after + 1)
        ok = np.shape(out) == exp.shape and np.array_equal(out, exp)
    elif mode == 'concatenate':
        exp = np.array(rows, dtype=data.dtype).reshape(-1)
        ok = np.shape(out) == exp.shape and np.array_equal(out, exp)
    else:
        exp = np.array([math.fsum(float(r[k]) for r in rows) / len(rows) for k in range(before + after + 1)])
        ok = np.shape(out) == exp.shape and np.allclose(out, exp, rtol=1e-12, atol=1e-12)
    if not ok:
        raise Violation('extract_around_indexes(mode=%s, before=%d, after=%d): result differs from the documented samples' % (mode, before, after), case)
    ctx.case(case, True, ['extract:' + str(mode), 'index_dtype:' + str(idx.dtype)] + (['window_beyond_index_dtype_max'] if int(idx.max()) + after > np.iinfo(idx.dtype).max else []))


# ------------------------------------------------------------------------------------------------
def check_peaks(ctx, case):
    data, dist, height = case['data'], case['distance'], case['height']
    d0 = data.copy()
    out = must(case, 'find_peaks(distance=%d, height=%r) on %s' % (dist, height, data.tolist() if len(data) <= 64 else '%d samples' % len(data)), sp.find_peaks, gen.L(case, data), dist, height)
    out = [int(v) for v in np.asarray(out).reshape(-1)]
    n = len(data)
    ge_prev = np.concatenate([[True], data[1:] >= data[:-1]])
    ge_next = np.concatenate([data[:-1] >= data[1:], [True]])
    cand = [int(i) for i in np.nonzero(ge_prev & ge_next & (data >= height))[0]]
    cs = set(cand)
    if any(i not in cs for i in out):
        raise Violation('find_peaks returned %s: index %s is not a local maximum >= height' % (out, [i for i in out if i not in cs][:3]), case)
    if any(b <= a for a, b in zip(out, out[1:])):
        raise Violation('find_peaks result %s is not strictly increasing' % out, case)
    if any(b - a < dist for a, b in zip(out, out[1:])):
        raise Violation('find_peaks returned %s: two peaks closer than min_peak_distance=%d' % (out, dist), case)
    kept = set(out)
    dropped = [i for i in cand if i not in kept]
    import bisect
    for i in dropped:
        lo, hi = bisect.bisect_right(cand, i - dist), bisect.bisect_left(cand, i + dist)      # candidates j with |j - i| < dist
        if not any(j != i and data[j] >= data[i] for j in cand[lo:hi]):
            raise Violation('find_peaks dropped candidate %d (value %r) although no other candidate within %d samples is at least as large; candidates %s, returned %s' % (
                i, float(data[i]), dist, cand if len(cand) <= 40 else '%d candidates' % len(cand), out if len(out) <= 40 else '%d peaks' % len(out)), case)
    if not np.array_equal(data, d0):
        raise Violation('find_peaks modified its input', case)
    if currently_in_test_context():
        target(float(len(dropped)), label='dropped candidates')
    ctx.case(case, len(dropped) > 0, ['peaks', 'dropped>0' if dropped else 'dropped=0', 'candidates>=3' if len(cand) >= 3 else 'candidates<3',
                                      'last_is_candidate' if cand and cand[-1] == n - 1 else 'last_not_candidate'] + (['long_signal:%d' % n] if n > 200 else []))


def check_width(ctx, case):
    data, direction, thr, mn, mx, delta = case['data'], case['direction'], case['threshold'], case['min_width'], case['max_width'], case['delta']
    d = sp.Direction.POSITIVE if direction == 'positive' else sp.Direction.NEGATIVE
    import warnings
    with warnings.catch_warnings():
        warnings.simplefilter('ignore')
        out = must(case, 'find_width', sp.find_width, gen.L(case, data), d, thr, mn, **{k: v for k, v in (('max_width', mx), ('delta', delta)) if v is not None})
    beyond = [(x > thr) if direction == 'positive' else (x < thr) for x in data]
    n = len(data)
    runs, rejected = [], 0
    i = 0
    while i < n:
        if beyond[i]:
            j = i
            while j < n and beyond[j]:
                j += 1
            if i > 0 and j < n:
                L = j - i
                if mx is not None:
                    ok = mn <= L <= mx
                elif delta is not None:
                    ok = mn - delta <= L <= mn + delta
                else:
                    ok = L >= mn
                if ok:
                    runs.append([i, j])
                else:
                    rejected += 1
            i = j
        else:
            i += 1
    got = np.asarray(out)
    exp = np.array(runs, dtype='int64').reshape(-1, 2)
    if got.shape != exp.shape or not np.array_equal(got.astype('int64'), exp):
        raise Violation('find_width(%s, thr=%r, min=%d, max=%s, delta=%s) returned %s, maximal bracketed runs are %s' % (direction, thr, mn, mx, delta, got.tolist(), runs), case)
    ctx.case(case, bool(runs) or rejected > 0, ['width', 'runs>0' if runs else 'runs=0', 'rejected>0' if rejected else 'rejected=0', direction])


CHECKS = {'moving': check_moving, 'pattern': check_pattern, 'pad': check_pad, 'extract': check_extract, 'peaks': check_peaks, 'peaks_long': check_peaks, 'width': check_width}


def replay(ctx, case):
    CHECKS[case['kind']](ctx, case)


# ------------------------------------------------------------------------------------------------
def _values(dt, small):
    if np.dtype(dt).kind == 'f':
        return st.integers(-64, 64).map(lambda k: k / 8.0) if small else st.floats(-100, 100, width=32)
    info = np.iinfo(dt)
    return st.integers(max(info.min, -4 if small else -100), min(info.max, 4 if small else 100))


@st.composite
def moving_cases(draw):
    op = draw(st.sampled_from(['sum', 'mean', 'var', 'std', 'skew', 'kurtosis']))
    dt = draw(st.sampled_from(['int8', 'uint8', 'int16', 'int32', 'int64', 'float32', 'float64']))
    shape = tuple(draw(st.lists(st.integers(1, 6), min_size=1, max_size=3)))
    axis = draw(st.one_of(st.none(), st.integers(-len(shape), len(shape) - 1)))
    ax = len(shape) - 1 if axis is None else axis % len(shape)
    w = draw(st.integers(1, shape[ax]))
    data = draw(hnp.arrays(dt, shape, elements=_values(dt, draw(st.booleans()))))
    return {'kind': 'moving', 'op': op, 'data': data, 'window': w, 'axis': axis}


@st.composite
def pattern_cases(draw):
    op = draw(st.sampled_from(['correlation', 'distance', 'bcdc']))
    N = draw(st.integers(2, 30))
    n = draw(st.integers(1, N - 1))
    dt = draw(st.sampled_from(['int8', 'uint8', 'int16', 'float32', 'float64']))
    small = draw(st.booleans())
    trace = draw(hnp.arrays(dt, (N,), elements=_values(dt, small)))
    if draw(st.booleans()) and n >= 2:
        i = draw(st.integers(0, N - n))
        pattern = trace[i:i + n].copy()      # an exact occurrence: correlation 1 / distance 0 at window i
        view = i if draw(st.booleans()) else None
    else:
        pattern = draw(hnp.arrays(dt, (n,), elements=_values(dt, small)))
        view = None
    unit = 1.0
    if np.dtype(dt).kind == 'f' and draw(st.integers(0, 2)) == 0:
        # the same signal in another unit (volts instead of millivolts, amperes instead of ADC codes): the scores of correlation / bcdc do not depend on it
        unit = draw(st.sampled_from([1e-3, 1e-6, 1e-9, 1e4]))
        trace = (trace.astype('float64') * unit).astype(dt)
        pattern = trace[view:view + n].copy() if view is not None else (pattern.astype('float64') * unit).astype(dt)
    return {'kind': 'pattern', 'op': op, 'trace': trace, 'pattern': pattern, 'pattern_view': view, 'unit': unit}


@st.composite
def pad_cases(draw):
    nd = draw(st.integers(1, 3))
    shape = tuple(draw(st.lists(st.integers(1, 4), min_size=nd, max_size=nd)))
    dt = draw(st.sampled_from(['int16', 'uint8', 'float64']))
    a = draw(hnp.arrays(dt, shape, elements=_values(dt, False)))
    use_off = draw(st.booleans())
    off = [draw(st.integers(0, 3)) for _ in shape] if use_off else None
    target_shape = [s + (o if use_off else 0) + draw(st.integers(0, 3)) for s, o in zip(shape, off or [0] * nd)]
    tk = draw(st.sampled_from(['list', 'tuple']))
    return {'kind': 'pad', 'array': a, 'target_shape': target_shape if tk == 'list' else tuple(target_shape), 'offsets': off,
            'pad_with': draw(st.one_of(st.none(), st.integers(0, 7)))}


@st.composite
def extract_cases(draw):
    n = draw(st.integers(1, 24))
    dt = draw(st.sampled_from(['int16', 'uint8', 'float64']))
    data = draw(hnp.arrays(dt, (n,), elements=_values(dt, False)))
    before = draw(st.integers(0, n - 1))
    after = draw(st.integers(0, n - 1 - before))
    k = draw(st.integers(1, 5))
    idx = np.array([draw(st.integers(before, n - 1 - after)) for _ in range(k)], dtype=draw(st.sampled_from(['int64', 'int32', 'uint8'])))
    if draw(st.integers(0, 3)) == 0:
        # indexes held in a narrow integer dtype, close to its maximum, on a trace that is longer than that maximum
        idt, n = draw(st.sampled_from([('uint8', 300), ('int8', 160), ('int16', 32790), ('uint16', 65560)]))
        mx = int(np.iinfo(idt).max)
        seed_ = draw(st.integers(0, 2 ** 32))
        data = np.random.Generator(np.random.PCG64(seed_)).integers(0, 200, size=n).astype(dt)
        before = draw(st.integers(0, 5))
        after = draw(st.integers(1, 20))
        idx = np.array([draw(st.integers(mx - 12, mx)) for _ in range(k)], dtype=idt)
    return {'kind': 'extract', 'data': data, 'indexes': idx, 'before': before, 'after': after, 'mode': draw(st.sampled_from([None, 'stack', 'concatenate', 'average']))}


@st.composite
def signal_1d(draw):
    n = draw(st.integers(1, 24))
    kind = draw(st.sampled_from(['tiny', 'tiny', 'small', 'float']))
    if kind == 'tiny':
        dt = draw(st.sampled_from(['int64', 'float64', 'uint8']))
        return draw(hnp.arrays(dt, (n,), elements=st.integers(0, 3)))
    if kind == 'small':
        return draw(hnp.arrays(draw(st.sampled_from(['int16', 'float32'])), (n,), elements=st.integers(-8, 8)))
    return draw(hnp.arrays('float64', (n,), elements=st.floats(-10, 10, width=32)))


@st.composite
def peaks_cases(draw):
    data = draw(signal_1d())
    dist = draw(st.integers(0, len(data) + 2))
    height = draw(st.one_of(st.just(float('-inf')), st.just(float('inf')), st.integers(-2, 4), st.floats(-3, 5, width=32)))
    return {'kind': 'peaks', 'data': data, 'distance': dist, 'height': height}


LONG_LENGTHS = [127, 128, 129, 255, 256, 257, 32767, 32768, 32769, 40000, 65535, 65536, 65537, 70000]


@st.composite
def peaks_long_cases(draw):
    """long signals (lengths around the limits of 8/16-bit positions): a noisy floor with a few spikes, some of them near the end"""
    n = draw(st.sampled_from(LONG_LENGTHS)) + draw(st.sampled_from([0, 0, 1, -1, 3]))
    g = np.random.Generator(np.random.PCG64(draw(st.integers(0, 2 ** 63))))
    dt = draw(st.sampled_from(['float64', 'float32', 'int32', 'int16', 'uint16']))
    floor = g.integers(0, draw(st.sampled_from([1, 3, 50, 1000])), size=n)
    for pos in [n - 1 - draw(st.integers(0, 40)), n // 2 + draw(st.integers(-5, 5)), draw(st.integers(0, n - 1)), draw(st.integers(max(0, n - 300), n - 1))]:
        floor[pos] += draw(st.sampled_from([2000, 5000]))
    dist = draw(st.sampled_from([0, 1, 2, 5, 50, 300]))
    height = draw(st.sampled_from([float('-inf'), 1500, 1500, 0]))
    return {'kind': 'peaks', 'data': floor.astype(dt), 'distance': dist, 'height': height}


@st.composite
def width_cases(draw):
    data = draw(signal_1d())
    direction = draw(st.sampled_from(['positive', 'negative']))
    thr = draw(st.one_of(st.integers(-2, 4), st.floats(-3, 5, width=32)))
    mn = draw(st.integers(1, 6))
    which = draw(st.sampled_from(['none', 'max', 'delta', 'both']))
    mx = draw(st.integers(1, 8)) if which in ('max', 'both') else None
    delta = None
    if which == 'delta':
        if mn < 2:
            mn = 2
        delta = draw(st.integers(1, mn - 1))
    if which == 'both':
        delta = draw(st.integers(1, 4))
    return {'kind': 'width', 'data': data, 'direction': direction, 'threshold': thr, 'min_width': mn, 'max_width': mx, 'delta': delta}


STRATS = {'moving': moving_cases, 'pattern': pattern_cases, 'pad': pad_cases, 'extract': extract_cases, 'peaks': peaks_cases, 'peaks_long': peaks_long_cases, 'width': width_cases}


def unit_generated(ctx, which, n):
    hyp.run(ctx, STRATS[which](), CHECKS[which], n)


def unit_peaks_exhaustive(ctx, maxlen, alphabet, shard, nshards):
    """all signals over a small alphabet up to a length, all distances, a few heights"""
    import itertools

    def cases():
        k = 0
        for n in range(1, maxlen + 1):
            for vals in itertools.product(range(alphabet), repeat=n):
                k += 1
                if k % nshards != shard:
                    continue
                data = np.array(vals, dtype='float64')
                for dist in range(0, n + 1):
                    yield {'kind': 'peaks', 'data': data, 'distance': dist, 'height': float('-inf')}
                yield {'kind': 'peaks', 'data': data, 'distance': 2, 'height': 1}

    hyp.run_enum(ctx, cases(), check_peaks)


def units(tier):
    q = tier == 'quick'
    us = []
    for which, n in (('moving', 700), ('pattern', 500), ('pad', 300), ('extract', 300), ('peaks', 3000), ('width', 3000)):
        for i in range(2 if which in ('moving', 'pattern', 'peaks') else 1):
            us.append({'name': 'gen-%s-%d' % (which, i), 'fn': 'unit_generated', 'kwargs': {'which': which, 'n': n if q else n * 40}})
    us.append({'name': 'gen-peaks-long', 'fn': 'unit_generated', 'kwargs': {'which': 'peaks_long', 'n': 60 if q else 2000}})
    ns = 4
    for s in range(ns):
        us.append({'name': 'peaks-exhaustive-%d' % s, 'fn': 'unit_peaks_exhaustive', 'kwargs': {'maxlen': 6 if q else 8, 'alphabet': 4, 'shard': s, 'nshards': ns}})
    return us


# dimensions added after the fourth and fifth round of seeded changes (DESIGN.md 8.3, 8.4); part of the rule reported in the evidence
RULE += ' Added with the fourth and fifth round of seeded changes: find_peaks on signals of 127..70 003 samples (lengths around 2^7, 2^8, 2^15, 2^16) with spikes near the end.'
