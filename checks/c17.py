"""C17 — on simulated leakage every attack ranks the true key first (whole public pipeline)."""
import logging
import warnings

import numpy as np
from hypothesis import strategies as st

import scared
from scared.aes import selection_functions as aes_sf
from scared.des import selection_functions as des_sf
import scared.aes.selection_functions.encrypt, scared.aes.selection_functions.decrypt  # noqa
import scared.des.selection_functions.encrypt, scared.des.selection_functions.decrypt  # noqa
from vlib import dist, gen, hyp
from vlib.core import Violation, must
from vlib.oracles import aes_ref as AR, des_ref as DR
from checks import c07

PROP = 'C17'
LEVEL = 'exploration'
TECHNIQUE = ('end-to-end simulation: Hypothesis-generated keys, plaintext sets and configurations; traces = model(real intermediate state of an independent reference cipher) + bounded uniform noise at known samples; '
             'oracle = ranking predicate: the guess returned by the selection function\'s expected-key function must lead every other guess by a fixed margin for every attacked word')
RULE = ('case = (cipher AES-128/192/256 | DES, ready-made selection function class of the encrypt/decrypt namespaces (first and last rounds), attack in CPA|DPA|ANOVA|NICV|SNR|MIA|TemplateDPA|Template(static), '
        'model, discriminant, 2-4 attacked words, N = 300 traces (600 for DES DPA and for template profiling), DC offset 0/3/20, container batch size, optional convergence_step, precision). Every case is a full attack and counts as non-trivial; distinct = digest of the case. '
        'Blind combinations (AddRoundKey targets with partition/bit based statistics: every guess induces the same partition) are excluded by construction.')
LEVEL_TEXT = ('Each generated configuration runs the public Container -> selection function -> model -> distinguisher -> discriminant pipeline on simulated traces and requires scores[expected key word, word] to exceed every other guess '
              'by 5% of its magnitude (calibration on the unchanged tree: smallest observed lead is reported in the evidence notes). Exploration over sampled keys/plaintexts/configurations.')
LEVEL_NOTE = 'trusted: reference ciphers (self-tested) for the true intermediate states; the class -> targeted state table of checks/c07.py'
ASSUMPTIONS = [
    'leakage = model(state word) at one sample per attacked word + uniform noise in [-0.25, 0.25]; other samples are pure noise',
    'AddRoundKey targets are attacked with CPA + HammingWeight + nanmax only (maxabs ties the complemented key; partition/bit statistics are blind there)',
    'DES S-box 4 (word 3) is not attacked with Value-partition statistics: S4(x ^ 0x2f) is a fixed relabelling of S4(x), so two guesses tie exactly (blind combination, excluded by construction)',
    'DES DPA on bit 2 of S-box 2 is excluded: its best wrong guess reaches 89% of the true peak without any noise (structural ghost peak), far inside the 5% margin once noise is added',
    'a constant (never moving) sample may be part of the traces: the statistic is undefined there and the discriminant has to ignore it',
    'static template attack: matching traces all carry one class, the best-scoring template must be that class (there is no key guess in this attack)',
]

AES_TARGETS = ['encrypt.FirstSubBytes', 'encrypt.LastSubBytes', 'encrypt.DeltaRLastRounds', 'decrypt.FirstSubBytes', 'decrypt.LastSubBytes', 'decrypt.DeltaRFirstRounds']
AES_ARK = ['encrypt.FirstAddRoundKey', 'encrypt.LastAddRoundKey', 'decrypt.FirstAddRoundKey', 'decrypt.LastAddRoundKey']
DES_TARGETS = [n for n in c07.DES_CLASSES if 'AddRoundKey' not in n]
DES_ARK = [n for n in c07.DES_CLASSES if 'AddRoundKey' in n]
ATTACKS = ['cpa', 'dpa', 'anova', 'nicv', 'snr', 'mia', 'tdpa', 'tstatic']
MARGIN = 0.05


def _hw(a):
    a = np.asarray(a, dtype='int64')
    return sum(((a >> i) & 1) for i in range(8))


def _simulate(case):
    """returns (plaintexts, ciphertexts, states[N, nwords]) from the reference cipher"""
    cipher, name = case['cipher'], case['target']
    kb = bytes(case['key'])
    pts = case['plaintexts']
    N = pts.shape[0]
    if cipher == 'aes':
        cts = np.array([list(AR.encrypt(kb, bytes(p))) for p in pts], dtype='uint8')
        st_ = np.array([c07._aes_real_state(name, kb, bytes(p), bytes(c)) for p, c in zip(pts, cts)], dtype='uint8')
    else:
        sk = DR.split_keys(kb)
        cts = np.array([DR.crypt(list(map(int, p)), sk, 'encrypt') for p in pts], dtype='uint8')
        tag, rk, mode, rnd, step = c07.DES_CLASSES[name]
        st_ = np.array([DR.stop_point(list(map(int, p if mode == 'encrypt' else c)), sk, mode, 0, rnd, step) for p, c in zip(pts, cts)], dtype='uint8')
    return pts, cts, st_


def _leak(case, values, seed_extra):
    """traces (N, S): sample 2*j+1 leaks model(values[:, j]); all samples carry uniform noise"""
    N, nw = values.shape
    g = gen.rng('c17-noise', int(case['noise_seed']), seed_extra)
    S = 2 * nw + 1
    tr = g.uniform(-0.25, 0.25, size=(N, S)) + float(case.get('offset', 0.0))
    m = case['model']
    for j in range(nw):
        v = values[:, j]
        lk = _hw(v) if m == 'hw' else v.astype('float64') if m == 'value' else ((v >> int(m[-1])) & 1)
        tr[:, 2 * j + 1] += lk * float(case.get('polarity', 1))
    if case.get('const_sample'):
        tr[:, -1] = float(case.get('offset', 0.0))        # a sample that never moves (padding / saturation): statistics are undefined there
    return tr.astype(case['tdtype'])


def _ordered(case, parts):
    """the class list as given (a range), descending, or in an arbitrary order: classes are values, their order is irrelevant"""
    o = case.get('partition_order') or 'ascending'
    if o == 'ascending':
        return parts
    p = [int(v) for v in parts]
    if o == 'descending':
        return p[::-1]
    return [int(v) for v in gen.rng('c17-partition-order', int(case['noise_seed'])).permutation(p)]


def _scared_model(case):
    m = case['model']
    return scared.HammingWeight() if m == 'hw' else scared.Value() if m == 'value' else scared.Monobit(int(m[-1]))


def check_case(ctx, case):
    logging.disable(logging.WARNING)
    try:
        scared.set_batch_size(int(case['batch_size']) if case['batch_size'] else None)
        with warnings.catch_warnings():
            warnings.simplefilter('ignore')
            _check(ctx, case)
    finally:
        scared.set_batch_size(None)
        logging.disable(logging.NOTSET)


def _check(ctx, case):
    cipher, name, attack = case['cipher'], case['target'], case['attack']
    ns, cls = name.split('.')
    words = [int(w) for w in case['words']]
    pts, cts, states = _simulate(case)
    sub = states[:, words]
    traces = _leak(case, sub, 0)
    key = np.array(case['key'], dtype='uint8')
    N = pts.shape[0]
    decoys = {}
    if case.get('decoy_data'):
        # the trace set also carries an unrelated metadata field literally called 'data' (all metadata is handed to the selection function)
        decoys['data'] = np.roll(pts, 3, axis=1) ^ 0xA5
    ths = dist.ram_ths(samples=traces, plaintext=pts, ciphertext=cts, key=np.tile(key, (N, 1)), **decoys)
    one = bool(case.get('one_sample_frame')) and attack in ('cpa', 'dpa')
    cont = scared.Container(ths, frame=slice(1, 2)) if one else scared.Container(ths)      # a one-sample frame: only the first attacked word leaks there
    mod = getattr(aes_sf if cipher == 'aes' else des_sf, ns)
    if case.get('asked_before'):
        ns2, cls2 = case['asked_before'].split('.')
        must(case, 'compute_expected_key of %s' % case['asked_before'], getattr(getattr(aes_sf if cipher == 'aes' else des_sf, ns2), cls2)().compute_expected_key, key=key.copy())
    sf = getattr(mod, cls)(words=(np.array(words) if case.get('words_as_array') else list(words)) if attack not in ('tdpa',) else words[0])
    labels = ['cipher:%s' % cipher, 'attack:' + attack, 'target:%s.%s' % (cipher, name), 'model:' + case['model'], 'keysize:%d' % len(key), 'batch:%s' % (case['batch_size'] or 'default'), 'prec:' + case['precision'],
              'offset:%g' % case.get('offset', 0.0), 'convergence_step:%s' % (case.get('convergence_step') or 'none')] + (['partitions_' + case['partition_order']] if case.get('partition_order', 'ascending') != 'ascending' and attack in ('anova', 'nicv', 'snr', 'mia') else []) + (['negative_polarity'] if case.get('polarity', 1) < 0 else []) + (['one_sample_frame'] if case.get('one_sample_frame') and attack in ('cpa', 'dpa') else []) + (['words_not_ascending'] if words != sorted(words) else []) + (['other_expected_key_asked_before'] if case.get('asked_before') else []) + (['constant_sample'] if case.get('const_sample') else []) + (['decoy_data_field'] if case.get('decoy_data') else []) + (['partial_partitions'] if case.get('partial_partitions') and attack in ('anova', 'nicv', 'snr') and case['model'] == 'hw' else [])
    nclass = {'hw': (9 if cipher == 'aes' else (7 if 'AddRoundKey' in name else 5)), 'value': (256 if cipher == 'aes' else 16)}.get(case['model'], 2)
    kw = dict(selection_function=sf, model=_scared_model(case), precision=case['precision'])
    if case.get('convergence_step') and attack != 'tstatic':
        kw['convergence_step'] = int(case['convergence_step'])
    if attack == 'tstatic':
        # profiling on the simulated set, matching on traces that all carry one class: no key involved
        w0 = words[0]
        iv = states[:, w0]
        cl = _hw(iv) if case['model'] == 'hw' else iv if case['model'] == 'value' else (iv >> int(case['model'][-1])) & 1

        @scared.reverse_selection_function
        def rsf(cl):
            return cl
        bths = dist.ram_ths(samples=_leak(case, iv[:, None], 1), cl=cl.astype('uint8').reshape(-1, 1))
        present = sorted(set(int(v) for v in cl if (cl == v).sum() >= 3))
        a = scared.TemplateAttack(container_building=scared.Container(bths), reverse_selection_function=rsf, model=scared.Value(), partitions=present, precision=case['precision'])
        must(case, 'TemplateAttack.build', a.build)
        target_class = present[int(case['noise_seed']) % len(present)]
        m = 40
        fixed = np.full((m, 1), 0, dtype='uint8')
        # a state value whose class is target_class
        cand = [v for v in range(256 if cipher == 'aes' else 64) if (int(_hw(v)) if case['model'] == 'hw' else v if case['model'] == 'value' else (v >> int(case['model'][-1])) & 1) == target_class]
        fixed[:] = cand[0]
        mths = dist.ram_ths(samples=_leak(case, fixed, 2), cl=np.zeros((m, 1), dtype='uint8'))
        must(case, 'TemplateAttack.run', a.run, scared.Container(mths))
        scores = np.asarray(a.scores, dtype='float64')
        best = present[int(np.argmax(scores))]
        if best != target_class:
            raise Violation('static template attack: matching traces of class %d score best for class %d (scores %s)' % (target_class, best, scores.tolist()), case)
        ctx.case(case, True, labels)
        return
    if attack == 'cpa':
        a = scared.CPAAttack(discriminant=getattr(scared, case['discriminant']), **kw)
    elif attack == 'dpa':
        a = scared.DPAAttack(discriminant=getattr(scared, case['discriminant']), **kw)
    elif attack in ('anova', 'nicv', 'snr'):
        parts = range(nclass)
        if case.get('partial_partitions') and case['model'] == 'hw':
            parts = range(1, nclass - 1)      # the two rarest Hamming-weight classes are not declared: their traces must simply be ignored
        a = getattr(scared, attack.upper() + 'Attack')(discriminant=getattr(scared, case['discriminant']), partitions=_ordered(case, parts), **kw)
    elif attack == 'mia':
        a = scared.MIAAttack(discriminant=getattr(scared, case['discriminant']), partitions=_ordered(case, range(nclass)), bin_edges=[float(case.get('offset', 0.0)) - 0.5 + i for i in range(nclass + 1)], **kw)
    else:
        w0 = words[0]
        # profiling set: another simulated acquisition with known intermediate values
        pcase = dict(case, plaintexts=case['profiling_plaintexts'])
        _, _, pstates = _simulate(pcase)
        iv = pstates[:, w0]

        @scared.reverse_selection_function
        def rsf(iv):
            return iv
        bths = dist.ram_ths(samples=_leak(case, iv[:, None], 1), iv=iv.reshape(-1, 1))
        a = scared.TemplateDPAAttack(container_building=scared.Container(bths), reverse_selection_function=rsf, partitions=range(nclass), **kw)
        must(case, 'TemplateDPAAttack.build', a.build)
        traces = _leak(case, states[:, [w0]], 0)
        ths = dist.ram_ths(samples=traces, plaintext=pts, ciphertext=cts, key=np.tile(key, (N, 1)), **decoys)
        cont = scared.Container(ths)
        words = [w0]
    must(case, '%s attack run' % attack, a.run, cont)
    scores = np.asarray(a.scores, dtype='float64')
    G = 256 if cipher == 'aes' else 64
    if scores.ndim == 1:
        scores = scores[:, None]
    if scores.shape != (G, len(words)):
        raise Violation('%s: scores shape %s, expected (guesses, words) = %s' % (attack, scores.shape, (G, len(words))), case)
    ek = np.asarray(must(case, 'compute_expected_key', sf.compute_expected_key, key=key)).reshape(-1)
    if len(ek) != len(words):
        full = np.asarray(getattr(mod, cls)().compute_expected_key(key=key)).reshape(-1)
        ek = full[words]
    for j, w in enumerate(words):
        if one and j > 0:
            continue
        col = scores[:, j]
        k = int(ek[j])
        t = col[k]
        others = np.delete(col, k)
        best_other = float(np.nanmax(others)) if np.isfinite(others).any() else float('-inf')
        if not np.isfinite(t):
            raise Violation('%s on %s.%s: score of the true key word %d (guess %d) is %r' % (attack, cipher, name, w, k, t), case)
        lead = (t - best_other) / max(abs(t), 1e-12)
        ctx.note_max('smallest_lead_negated', -lead)
        ctx.note_max('smallest_lead_negated:%s:%s:%s' % (cipher, attack, case['model'][:4]), -lead)
        if not lead > MARGIN:
            raise Violation('%s (%s, %s, %s) on %s.%s word %d: expected key guess %d scores %r, best other guess %d scores %r: the true key does not lead by %d%%' % (
                attack, case['model'], case['discriminant'], case['precision'], cipher, name, w, k, float(t), int(np.nanargmax(np.where(np.arange(G) == k, -np.inf, np.nan_to_num(col, nan=-np.inf)))), best_other, int(MARGIN * 100)), case)
    ctx.case(case, True, labels)


def replay(ctx, case):
    check_case(ctx, case)


@st.composite
def cases(draw, cipher, attack):
    seed64 = draw(st.integers(0, 2 ** 63))
    g = np.random.Generator(np.random.PCG64(seed64))
    if cipher == 'aes':
        ks = draw(st.sampled_from([16, 16, 24, 32]))
        blk, nw = 16, 16
    else:
        ks, blk, nw = 8, 8, 8
    ark_ok = attack == 'cpa'
    targets = (AES_TARGETS if cipher == 'aes' else DES_TARGETS) + ((AES_ARK if cipher == 'aes' else DES_ARK) if ark_ok else [])
    target = draw(st.sampled_from(targets))
    is_ark = 'AddRoundKey' in target
    key = np.frombuffer(draw(st.binary(min_size=ks, max_size=ks)), dtype='uint8').copy()
    N = 600 if attack == 'tstatic' or (cipher == 'des' and attack == 'dpa') else 300
    pts = g.integers(0, 256, size=(N, blk)).astype('uint8')
    nwords = draw(st.integers(2, 4)) if attack not in ('tdpa', 'tstatic') else 1
    words = sorted(int(v) for v in g.choice(nw, size=nwords, replace=False))
    word_order = draw(st.sampled_from(['ascending', 'shuffled', 'permuted_run']))
    if attack == 'dpa':
        model = 'mono%d' % draw(st.integers(0, 7 if cipher == 'aes' else 3))
    elif attack in ('tdpa', 'tstatic'):
        model = draw(st.sampled_from(['mono0', 'mono3'])) if cipher == 'aes' else draw(st.sampled_from(['value', 'mono1']))
    elif attack in ('anova', 'nicv', 'snr') and cipher == 'des':
        model = draw(st.sampled_from(['hw', 'value']))
    elif attack == 'cpa' and not is_ark and draw(st.integers(0, 3)) == 0:
        model = 'value'                    # identity leakage of the whole word (values up to 255 for AES)
    else:
        model = 'hw'
    if attack == 'tstatic':
        model = 'hw' if draw(st.booleans()) else model
    if cipher == 'des' and attack == 'dpa' and model == 'mono2' and 1 in words:
        # structurally weak, excluded by construction: for bit 2 of DES S-box 2 the best wrong guess reaches 89% of the true peak even without noise
        # (measured lead 0.11 at N=3000, noise-free); every other (S-box, bit) pair leads by >= 0.22
        words = sorted([w for w in words if w != 1] + [min(v for v in range(8) if v != 1 and v not in words)])
    if cipher == 'des' and model == 'value' and attack != 'tstatic':
        # blind by construction: DES S-box 4 satisfies S4(x ^ 0x2f) = pi(S4(x)) for a fixed bijection pi, so the guesses k and k ^ 0x2f
        # induce the same partition of the traces by VALUE and every partition statistic ties them (found by the thorough tier on the unchanged tree)
        if 3 in words:
            words = sorted([w for w in words if w != 3] + [min(v for v in range(8) if v != 3 and v not in words)])
    if word_order == 'permuted_run' and len(words) >= 2:
        # consecutive words, smallest first and largest last, the ones in between in any order (column j of the results belongs to words[j])
        banned = set()
        if cipher == 'des' and attack == 'dpa' and model == 'mono2':
            banned.add(1)
        if cipher == 'des' and model == 'value' and attack != 'tstatic':
            banned.add(3)
        ln = max(3, len(words))
        starts = [s0 for s0 in range(0, nw - ln + 1) if not (set(range(s0, s0 + ln)) & banned)]
        if starts:
            s0 = starts[int(g.integers(0, len(starts)))]
            inner = list(range(s0 + 1, s0 + ln - 1))
            g.shuffle(inner)
            if ln >= 4 and inner == sorted(inner):
                inner = inner[::-1]
            words = [s0] + [int(v) for v in inner] + [s0 + ln - 1]
            if ln == 3:
                words = [s0 + 1, s0, s0 + 2] if draw(st.booleans()) else [s0, s0 + 2, s0 + 1]
    elif word_order == 'shuffled':
        words = [int(v) for v in g.permutation(words)]
    disc = 'nanmax' if is_ark else draw(st.sampled_from(['maxabs', 'nanmax'])) if attack not in ('dpa',) else 'maxabs'
    case = {'kind': 'attack', 'cipher': cipher, 'attack': attack, 'target': target, 'key': key, 'plaintexts': pts, 'words': words, 'model': model, 'discriminant': disc,
            'precision': draw(st.sampled_from(['float32', 'float64'])), 'tdtype': draw(st.sampled_from(['float32', 'float64'])),
            'batch_size': draw(st.sampled_from([0, 0, 100, 37, 300])), 'noise_seed': draw(st.integers(0, 2 ** 32)),
            'offset': draw(st.sampled_from([0.0, 0.0, 3.0, 20.0])), 'convergence_step': draw(st.sampled_from([0, 0, 50, 100, 120])),
            'const_sample': draw(st.booleans()) and attack in ('cpa', 'anova', 'nicv', 'snr', 'dpa'),
            'decoy_data': draw(st.booleans()), 'partial_partitions': draw(st.booleans()),
            'partition_order': draw(st.sampled_from(['ascending', 'ascending', 'descending', 'shuffled'])),
            'words_as_array': draw(st.booleans()),
            # leakage of negative polarity (power drops when the weight rises): the absolute-value discriminant ranks it like the positive one
            'polarity': -1 if (attack in ('cpa', 'dpa') and disc == 'maxabs' and draw(st.booleans())) else 1,
            'one_sample_frame': attack in ('cpa', 'dpa') and draw(st.integers(0, 3)) == 0,
            # another ready-made selection function of the same cipher is asked for its expected key, with the same master key, beforehand
            'asked_before': draw(st.sampled_from([''] + (AES_TARGETS + AES_ARK if cipher == 'aes' else DES_TARGETS + DES_ARK)))}
    if attack == 'tdpa':
        case['profiling_plaintexts'] = g.integers(0, 256, size=(600, blk)).astype('uint8')
    return case


def unit_generated(ctx, cipher, attacks, n):
    for i, attack in enumerate(attacks):
        hyp.run(ctx, cases(cipher, attack), check_case, n, shrink_budget=10 if ctx.tier == 'quick' else 60, seed_extra=i)


def units(tier):
    q = tier == 'quick'
    us = []
    n = 10 if q else 120
    for cipher in ('aes', 'des'):
        us.append({'name': '%s-cpa-dpa' % cipher, 'fn': 'unit_generated', 'kwargs': {'cipher': cipher, 'attacks': ['cpa', 'dpa'], 'n': 4 * n}})
        us.append({'name': '%s-cpa-dpa-2' % cipher, 'fn': 'unit_generated', 'kwargs': {'cipher': cipher, 'attacks': ['dpa', 'cpa'], 'n': 4 * n}})
        us.append({'name': '%s-anova' % cipher, 'fn': 'unit_generated', 'kwargs': {'cipher': cipher, 'attacks': ['anova'], 'n': n}})
        us.append({'name': '%s-nicv' % cipher, 'fn': 'unit_generated', 'kwargs': {'cipher': cipher, 'attacks': ['nicv'], 'n': n}})
        us.append({'name': '%s-snr' % cipher, 'fn': 'unit_generated', 'kwargs': {'cipher': cipher, 'attacks': ['snr'], 'n': n}})
        us.append({'name': '%s-mia' % cipher, 'fn': 'unit_generated', 'kwargs': {'cipher': cipher, 'attacks': ['mia'], 'n': n}})
        us.append({'name': '%s-tdpa' % cipher, 'fn': 'unit_generated', 'kwargs': {'cipher': cipher, 'attacks': ['tdpa'], 'n': n}})
        us.append({'name': '%s-tstatic' % cipher, 'fn': 'unit_generated', 'kwargs': {'cipher': cipher, 'attacks': ['tstatic'], 'n': n}})
    return us


def selftest():
    return AR.selftest() + ' ' + DR.selftest()


# dimensions added after the fourth and fifth round of seeded changes (DESIGN.md 8.3, 8.4); part of the rule reported in the evidence
RULE += ' Added with the fourth and fifth round of seeded changes: word lists not ascending; another class\'s expected key asked first; leakage of negative polarity with maxabs; one-sample frames (CPA/DPA); class lists descending / shuffled.'
