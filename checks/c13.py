"""C13 — MIA result is the mutual information between binned samples and value classes; non-uniform edges are refused."""
import math
import warnings

import numpy as np
from hypothesis import strategies as st

import scared
from vlib import dist, gen, hyp
from vlib.core import Violation, must
from vlib.oracles import mia as omia

PROP = 'C13'
LEVEL = 'exploration'
TECHNIQUE = ('Hypothesis-generated (edges, classes, traces, labels, batches) instances compared cell by cell with a counting oracle for H(B)-H(B|V) whose bins are defined by the '
             'configured edges themselves; integer configurations put samples on every edge, just inside and outside; float samples within a few ulps of an edge are judged by a '
             'validity predicate (either adjacent bin); independent (product-structured) joint histograms must give 0; generated uniform / non-uniform edge lists for the refusal rule')
RULE = ('instance = (edge set: integer width 1..120 x 1..40 bins x offset, given as list | range | int ndarray | float ndarray; dyadic float edges; linspace float edges; or automatic edges from the '
        'first batch), class list (1..16 values, gaps allowed, or automatic), trace dtype, accumulator dtype, n in 1..300 traces, 1..5 samples, 1..3 words, 1..3 batches; every (word, sample) '
        'cell is one oracle comparison. Non-trivial = the instance has at least one sample exactly on an edge, one out of range and one empty (bin, class) cell; distinct = digest of the case. '
        'Edge lists: uniform ones (incl. linspace rounding noise) must be accepted, lists with a relative width change > 1e-6, unsorted or repeated edges must raise at configuration.')
LEVEL_TEXT = ('Each cell of each generated instance is compared (abs. tolerance 1e-9 nats; 5e-5 when the accumulators and hence the result are float32) with the mutual information computed from exact integer counts; bins follow the definition '
              'edges[i] <= x < edges[i+1] with the last edge inclusive and out-of-range samples dropped. Exploration over sampled inputs, with on-edge / out-of-range / empty-cell situations forced by construction.')
LEVEL_NOTE = 'trusted: vlib/oracles/mia.py (self-tested: two algebraic forms of MI agree, product tables give 0, determined class gives H(V))'
ASSUMPTIONS = [
    'a float sample within 16 eps x (|edge| + range) of an edge without being equal to it may be counted in either adjacent bin (or in/out of range at the outer edges): the returned value must match one of the <= 8 admissible assignments',
    'cells with no in-range sample of a declared class are undefined and not asserted',
    'edge lists whose relative width change lies between 1e-9 and 1e-6 are not generated: the statement does not say on which side of the refusal they fall',
]

EPS = float(np.finfo('float64').eps)


def _edges_obj(case):
    """the bin_edges argument as the user would pass it"""
    e = case['edges']
    form = case['edges_form']
    if form == 'none':
        return None
    if form == 'list':
        return [float(v) if case['edges_float'] else int(v) for v in e]
    if form == 'range':
        return range(int(e[0]), int(e[-1]) + 1, int(e[1] - e[0]))
    if form == 'int_array':
        return np.array([int(v) for v in e], dtype='int64')
    return np.array(e, dtype='float64')


def check_mi(ctx, case):
    precision = case['precision']
    traces, data = case['traces'], case['data']
    n, s = traces.shape
    parts = case['partitions']
    kw = {}
    be = _edges_obj(case)
    if be is not None:
        kw['bin_edges'] = be
    else:
        kw['bins_number'] = int(case['bins_number'])
    obj = must(case, 'MIADistinguisher(uniform edges)', scared.MIADistinguisher, partitions=None if parts is None else list(parts), precision=precision, **kw)
    cuts = [0] + list(case['cuts']) + [n]
    mid = list(case.get('mid_computes') or [])
    with warnings.catch_warnings():
        warnings.simplefilter('ignore')
        for bi, (a, b) in enumerate(zip(cuts, cuts[1:])):
            if b > a:
                must(case, 'MIA.update', obj.update, gen.L(case, traces[a:b]), gen.L(case, data[a:b], 2))
                if bi < len(mid) and mid[bi]:
                    must(case, 'MIA.compute between batches', obj.compute)        # must not disturb what follows
        res = must(case, 'MIA.compute', obj.compute)
        if case.get('compute_twice'):
            _first = np.array(res, copy=True)
            if isinstance(res, np.ndarray) and res.flags.writeable:
                res[...] = -12345.0            # the caller owns what compute() returned: overwriting it must not change the next answer
            res = _first
            res2 = must(case, 'MIA.compute (second call)', obj.compute)
            if not dist.same(res, res2):
                raise Violation('MIA: two consecutive compute() calls without new data differ', case)
    W = data.shape[1]
    if not isinstance(res, np.ndarray) or res.shape != (W, s):
        raise Violation('MIA: result shape %s, expected (words, samples) = %s' % (np.shape(res), (W, s)), case)
    edges = [float(v) for v in np.asarray(obj.bin_edges, dtype='float64')]
    if be is not None:
        if edges != [float(v) for v in case['edges']]:
            raise Violation('MIA: bin_edges attribute %s differs from the configured edges' % edges[:4], case)
    else:
        first = traces[:cuts[1]]
        lo, hi = float(first.min()), float(first.max())
        if len(edges) != case['bins_number'] + 1 or edges[0] != lo or edges[-1] != hi:
            raise Violation('MIA: automatic edges %s..%s (%d) are not bins_number+1 points from min to max of the first batch' % (edges[0], edges[-1], len(edges)), case)
    if parts is None:
        from checks.c04 import auto_classes
        classes = auto_classes(int(data[:cuts[1]].max()))
    else:
        classes = list(parts)
    cap = int(np.iinfo(precision).max) if np.dtype(precision).kind in 'iu' else None
    rng_ = edges[-1] - edges[0]
    on_edge = out = amb = empty_cells = 0
    integral = traces.dtype.kind in 'iu' or bool(np.all(traces == np.round(traces)))
    for j in range(W):
        labs = [int(v) for v in data[:, j]]
        for i in range(s):
            xs = [float(v) for v in traces[:, i]]
            delta = 0.0 if (integral and case['edges_kind'] == 'int') else 16 * EPS * (max(abs(edges[0]), abs(edges[-1])) + rng_)
            values, info = omia.column_mi(xs, labs, classes, edges, delta)
            if cap is not None and cap < n:
                # narrow counters: only histories whose individual (bin, class) counts fit are in the domain (their totals may exceed the dtype)
                import collections
                cnt = collections.Counter((omia.bin_of(x, edges), v) for x, v in zip(xs, labs) if v in set(classes))
                cnt.pop(None, None)
                if any(b is not None and c > cap for (b, _v), c in cnt.items()):
                    ctx.count('skipped_cell_count_exceeds_counter_dtype')
                    continue
            on_edge += info['on_edge']
            out += info['out_of_range']
            amb += info['ambiguous']
            g = float(res[j, i])
            if info['too_many']:
                ctx.count('skipped_cell_too_many_near_edge_samples')
                continue
            if all(v is None for v in values):
                ctx.count('cells_undefined_no_sample_in_range')
                continue
            if math.isnan(g) and any(v is None for v in values):
                ctx.count('cells_undefined_no_sample_in_range')     # one admissible assignment leaves the cell without any sample
                continue
            if math.isinf(g):
                raise Violation('MIA: word %d sample %d is infinite' % (j, i), case)
            # rounding of the chosen precision: float32 accumulators give float32-accurate probabilities whatever the dtype of the returned array
            atol = 5e-5 if (np.dtype(precision) == np.float32 or res.dtype != np.float64) else 1e-9
            ok = any(v is not None and abs(g - v) <= atol for v in values)
            if not ok:
                vs = [v for v in values if v is not None]
                raise Violation('MIA (%s): word %d sample %d: got %r, mutual information of the binned samples is %r%s (n=%d, %d bins, %d classes, %d sample(s) on an edge, %d out of range)' % (
                    precision, j, i, g, vs[0], ' (or %d other admissible values)' % (len(vs) - 1) if len(vs) > 1 else '', n, len(edges) - 1, len(classes), info['on_edge'], info['out_of_range']), case)
            if g < -atol:
                raise Violation('MIA: word %d sample %d is negative: %r' % (j, i, g), case)
            if case.get('independent') and i in case['independent'] and j == 0 and abs(g) > atol:
                raise Violation('MIA: word 0 sample %d has a product-structured joint histogram (bins independent of classes) but MI = %r' % (i, g), case)
            ctx.count('cells_compared')
    # empty cell: some (bin, class) combination of declared class / bin without any trace (always true unless the table is full)
    nontrivial = on_edge > 0 and out > 0
    labels = ['edges:' + case['edges_kind'], 'form:' + case['edges_form'], 'prec:' + precision, 'tdtype:' + str(traces.dtype),
              'classes:auto' if parts is None else 'classes:explicit', 'batches:%d' % (len(case['cuts']) + 1)]
    if on_edge:
        labels.append('has_on_edge')
    if out:
        labels.append('has_out_of_range')
    if amb:
        labels.append('has_near_edge_ambiguous')
    if case.get('independent'):
        labels.append('has_independent_column')
    ctx.case(case, nontrivial, labels)


def check_edges(ctx, case):
    """refusal rule: ``expect`` = 'accept' | 'refuse'"""
    e = case['edges']
    arg = list(e) if case['as_list'] else np.array(e, dtype='float64')
    if case.get('as_range'):
        arg = range(*[int(v) for v in case['as_range']])
    if case.get('int_dtype'):
        arg = np.array([int(v) for v in e], dtype=case['int_dtype'])      # integer edges given as an integer ndarray (unsigned ones included)
    how = case['how']
    try:
        if how == 'ctor':
            obj = scared.MIADistinguisher(bin_edges=arg)
        else:
            obj = scared.MIADistinguisher()
            obj.bin_edges = arg
        raised = None
    except (ValueError, TypeError) as ex:
        raised = ex
    except Exception as ex:  # noqa
        raise Violation('MIA bin_edges %s: unexpected %s: %s' % (how, type(ex).__name__, ex), case)
    if case['expect'] == 'refuse' and raised is None:
        raise Violation('MIA accepted non-uniform / unsorted bin_edges (%s): %s' % (case['why'], [float(v) for v in e][:8]), case)
    if case['expect'] == 'accept':
        if raised is not None:
            raise Violation('MIA refused uniform bin_edges (%s): %s -> %s' % (case['why'], [float(v) for v in e][:8], raised), case)
        if obj.bins_number != len(e) - 1:
            raise Violation('MIA: bins_number %s after configuring %d edges' % (obj.bins_number, len(e)), case)
    ctx.case(case, case['expect'] == 'refuse' and case['why'] != 'unsorted', ['expect:' + case['expect'], 'why:' + case['why'], 'how:' + how] + (['given_as_range'] if case.get('as_range') else []) + (['given_as_%s_array' % case['int_dtype']] if case.get('int_dtype') else []))


def replay(ctx, case):
    if case.get('kind') == 'edges':
        check_edges(ctx, case)
    else:
        check_mi(ctx, case)


# ------------------------------------------------------------------------------------------------
@st.composite
def mi_cases(draw, precision, tdtypes):
    seed64 = draw(st.integers(0, 2 ** 63))
    g = np.random.Generator(np.random.PCG64(seed64))
    ekind = draw(st.sampled_from(['int', 'int', 'dyadic', 'linspace', 'linspace', 'auto']))
    nb = draw(st.one_of(st.integers(1, 6), st.integers(1, 40)))
    tdt = draw(st.sampled_from(tdtypes))
    isint = np.dtype(tdt).kind in 'iu'
    n = draw(st.one_of(st.integers(1, 20), st.integers(1, 300)))
    s = draw(st.integers(1, 5))
    W = draw(st.integers(1, 3))
    if precision == 'uint8' and draw(st.booleans()):
        n = draw(st.integers(256, 300))          # more traces than a counter can hold in total (each (bin, class) cell still fits)
        nb = draw(st.sampled_from([1, 1, 2, 3]))
    if precision == 'uint16' and draw(st.integers(0, 24)) == 0:
        n, s, W, nb = 65536 + draw(st.integers(0, 40)), 1, 1, draw(st.sampled_from([1, 2]))
    edges_float = True
    form = 'float_array'
    if ekind == 'int':
        w = draw(st.one_of(st.integers(1, 30), st.sampled_from([49, 98, 103, 107, 120, 7, 3])))
        if isint:
            info = np.iinfo(tdt)
            span = w * nb
            if span > info.max - info.min - 4:
                nb = max(1, (info.max - info.min - 4) // w)
                if nb * w > info.max - info.min - 4:
                    w, nb = 1, min(nb, 8)
            lo_min, lo_max = int(info.min) + 2, int(info.max) - 2 - w * nb
            off = int(g.integers(max(lo_min, -1000), min(lo_max, 1000) + 1))
        else:
            off = draw(st.sampled_from([0, 0, -7, 3, 100, -1000]))
        edges = [off + w * i for i in range(nb + 1)]
        form = draw(st.sampled_from(['list', 'range', 'int_array', 'float_array']))
        edges_float = draw(st.booleans()) if form == 'list' else form == 'float_array'
    elif ekind == 'dyadic':
        w = draw(st.integers(1, 12)) / 2 ** draw(st.integers(0, 6))
        off = draw(st.integers(-64, 64)) / 2 ** draw(st.integers(0, 4))
        edges = [off + w * i for i in range(nb + 1)]
        form = draw(st.sampled_from(['list', 'float_array']))
    elif ekind == 'linspace':
        lo = float(g.uniform(-50, 50))
        width = float(g.uniform(0.01, 20))
        edges = [float(v) for v in np.linspace(lo, lo + width * nb, nb + 1)]
        form = draw(st.sampled_from(['list', 'float_array']))
    else:
        edges = None
        form = 'none'
    # classes and labels
    mode = draw(st.sampled_from(['explicit', 'explicit', 'explicit', 'auto']))
    if mode == 'auto':
        amax = draw(st.sampled_from([0, 1, 3, 8, 9, 20]))
        partitions = None
        lab_pool = list(range(amax + 1))
    else:
        # fixed family of class lists (the per-list lookup function is compiled once per process, see vlib/dist.enable_lut_cache)
        k, start, stride = draw(st.sampled_from([(1, 0, 1), (2, 0, 1), (2, 7, 5), (3, 0, 1), (3, 1, 2), (4, 0, 1), (5, 0, 1), (9, 0, 1), (9, 1, 1), (16, 0, 2)]))
        partitions = [start + stride * i for i in range(k)]
        lab_pool = list(partitions)
        if draw(st.booleans()):
            lab_pool = lab_pool + [partitions[-1] + 1]        # one undeclared value
        if k > 2 and draw(st.booleans()):
            lab_pool = lab_pool[1:]                           # an empty declared class
    labels = g.choice(lab_pool, size=(n, W))
    ncuts = draw(st.integers(0, 2)) if n > 2 else 0
    cuts = sorted(set(draw(st.lists(st.integers(1, n - 1), min_size=ncuts, max_size=ncuts)))) if n > 1 else []
    first_len = (cuts + [n])[0]
    if mode == 'auto':
        labels[:first_len] = np.minimum(labels[:first_len], amax)
        labels[int(g.integers(first_len)), int(g.integers(W))] = amax
    ddt = draw(st.sampled_from([d for d in gen.CLASS_DTYPES if int(labels.max()) <= np.iinfo(d).max]))
    if np.dtype(ddt).kind == 'i' and draw(st.integers(0, 2)) == 0 and (mode != 'auto' or (first_len < n and ekind != 'auto')):
        # negative values of signed data are not classes (with automatic classes only after the first batch)
        for _ in range(draw(st.integers(1, 3))):
            labels[int(g.integers(first_len if mode == 'auto' else 0, n)), int(g.integers(W))] = -int(g.choice([1, 2, 3, 100]))
    data = labels.astype(ddt)
    independent = []
    # traces
    if edges is None:
        bins_number = nb
        if isint:
            info = np.iinfo(tdt)
            lo, hi = max(int(info.min), -200), min(int(info.max), 200)
            traces = g.integers(lo, hi + 1, size=(n, s)).astype(tdt)
        else:
            traces = (g.normal(size=(n, s)) * 3).astype(tdt)
        if len(np.unique(traces[:first_len])) < 2:
            # automatic edges need two distinct values in the first batch (otherwise the edges collapse and the update is refused)
            cuts = []
            first_len = n
            if n < 2:
                n = 2
                traces = np.concatenate([traces, traces], axis=0)
                data = np.concatenate([data, data], axis=0)
            traces[0, 0] = traces.max() - 1 if isint and traces.max() > np.iinfo(tdt).min else traces.max() + 1
    else:
        bins_number = None
        lo, hi = edges[0], edges[-1]
        cols = []
        for i in range(s):
            ck = draw(st.sampled_from(['cover', 'cover', 'random', 'near', 'near', 'independent']))
            if isint or ekind == 'int':
                ilo, ihi = int(math.floor(lo)) - 2, int(math.ceil(hi)) + 2
                if isint:
                    info = np.iinfo(tdt)
                    ilo, ihi = max(ilo, int(info.min)), min(ihi, int(info.max))
                    if ihi < ilo:       # edges entirely outside the dtype range: every sample is out of range
                        ilo, ihi = int(info.min), min(int(info.max), int(info.min) + 5)
                if ck == 'independent' and W >= 1 and n >= 2:
                    c = _independent_column(g, labels[:, 0], [int(math.ceil(e)) for e in edges[:-1] if ilo <= math.ceil(e) <= ihi] or [ilo])
                    independent.append(i)
                elif ck in ('cover', 'near'):
                    # every integer of [lo-2, hi+2] as far as n allows, in random order: samples on every edge, inside and outside
                    allv = np.arange(ilo, ihi + 1)
                    c = g.permutation(np.resize(allv, max(n, 1)))[:n] if len(allv) <= n else g.choice(allv, size=n)
                else:
                    c = g.integers(ilo, ihi + 1, size=n)
                c = np.asarray(c)
            else:
                span = hi - lo
                c = g.uniform(lo - 0.15 * span, hi + 0.15 * span, size=n)
                earr = np.array(edges)
                # keep generic samples away from edges, then plant exact / near-edge samples
                d = np.abs(c[:, None] - earr[None, :]).min(axis=1)
                c = np.where(d < 1e-6 * span, c + 3e-6 * span, c)
                if ck in ('cover', 'near'):
                    k_on = min(n, len(edges))
                    pos = g.choice(n, size=k_on, replace=False)
                    c[pos] = g.choice(earr, size=k_on)           # exactly on edges (as far as the trace dtype can hold them)
                if ck == 'near':
                    for _ in range(min(n, 3)):
                        e = float(g.choice(earr))
                        steps = int(g.integers(1, 3)) * (1 if g.integers(2) else -1)
                        x = e
                        for _k in range(abs(steps)):
                            x = float(np.nextafter(x, math.inf if steps > 0 else -math.inf))
                        c[int(g.integers(n))] = x
                if ck == 'independent' and n >= 2:
                    mids = [(a + b) / 2 for a, b in zip(edges, edges[1:])]
                    c = np.asarray(_independent_column(g, labels[:, 0], mids), dtype='float64')
                    independent.append(i)
            cols.append(c)
        traces = np.stack(cols, axis=1).astype(tdt)
    return {'kind': 'mi', 'precision': precision, 'edges': edges, 'edges_kind': ekind, 'edges_form': form, 'edges_float': edges_float,
            'bins_number': bins_number, 'partitions': partitions, 'traces': traces, 'data': data, 'cuts': cuts, 'independent': independent,
            'mid_computes': [draw(st.booleans()) for _ in range(len(cuts) + 1)], 'compute_twice': draw(st.booleans())}


def _independent_column(g, labels, bin_values):
    """samples such that the (bin, class) table of word 0 is a product: every class sees the same bin pattern"""
    labels = np.asarray(labels)
    vals, counts = np.unique(labels, return_counts=True)
    m = int(np.gcd.reduce(counts))
    pattern = g.choice(bin_values, size=m)
    out = np.empty(len(labels), dtype='float64')
    for v, c in zip(vals, counts):
        idx = np.nonzero(labels == v)[0]
        out[idx] = np.tile(pattern, c // m)
    return out


@st.composite
def edge_cases(draw):
    nb = draw(st.integers(2, 30))
    scale = 10.0 ** draw(st.integers(-6, 6))
    off = draw(st.sampled_from([0.0, 0.0, 1.0, -3.5, 1e3])) * scale * draw(st.sampled_from([0.0, 1.0, 1.0, 10.0]))
    base = draw(st.sampled_from(['arange', 'linspace']))
    if base == 'arange':
        e = [off + scale * i for i in range(nb + 1)]
    else:
        e = [float(v) for v in np.linspace(off, off + scale * nb, nb + 1)]
    why = draw(st.sampled_from(['uniform', 'uniform', 'widening', 'narrowing', 'compensating', 'jitter', 'one_wide_bin', 'unsorted', 'repeated']))
    expect = 'accept' if why == 'uniform' else 'refuse'
    e = list(e)
    if why == 'widening':
        r = 1 + draw(st.sampled_from([1e-5, 1e-3, 0.1, 1.0]))
        widths = [scale * r ** i for i in range(nb)]
        e = [off + sum(widths[:i]) for i in range(nb + 1)]
    elif why == 'narrowing':
        r = 1 - draw(st.sampled_from([1e-5, 1e-3, 0.1, 0.5]))
        widths = [scale * r ** i for i in range(nb)]
        e = [off + sum(widths[:i]) for i in range(nb + 1)]
    elif why == 'compensating':
        # one inner edge moved: the two adjacent widths change in opposite directions, first and last widths may stay equal
        k = draw(st.integers(1, nb - 1))
        e[k] += scale * draw(st.sampled_from([1e-5, 1e-3, 0.3, -1e-5, -0.3]))
    elif why == 'jitter':
        k = draw(st.integers(0, nb))
        e[k] += scale * draw(st.sampled_from([2e-6, -2e-6, 1e-4, -1e-2]))
    elif why == 'one_wide_bin':
        k = draw(st.integers(1, nb))
        d = scale * draw(st.sampled_from([1.0, 0.5, 2.0, 1e-4]))
        e = e[:k] + [v + d for v in e[k:]]
    elif why == 'unsorted':
        k = draw(st.integers(0, nb - 1))
        e[k], e[k + 1] = e[k + 1], e[k]
    elif why == 'repeated':
        k = draw(st.integers(0, nb - 1))
        e[k + 1] = e[k]
    as_range = None
    if draw(st.integers(0, 5)) == 0:
        # edges given as a range object: increasing ranges are uniform edge sets, decreasing or empty ones must be refused like any unsorted list
        a_, st_, nb_ = draw(st.integers(-50, 50)), draw(st.integers(1, 40)), draw(st.integers(1, 20))
        if draw(st.booleans()):
            as_range = [a_, a_ + st_ * nb_ + 1, st_]
            e = list(range(*as_range))
            why, expect = 'uniform', 'accept'
        else:
            as_range = [a_ + st_ * nb_, a_ - 1, -st_]
            e = list(range(*as_range))
            why, expect = 'unsorted', 'refuse'
    int_dtype = None
    if as_range is None and draw(st.integers(0, 5)) == 0:
        # integer edges in an integer ndarray: increasing evenly spaced ones are accepted, decreasing ones, sets whose step is constant only
        # modulo the width of an unsigned dtype, and unsorted ones are refused
        int_dtype = draw(st.sampled_from(['uint8', 'uint16', 'uint32', 'uint64', 'int16', 'int32']))
        top = min(int(np.iinfo(int_dtype).max), 60000)
        nb_ = draw(st.integers(1, 6))
        st_ = draw(st.integers(1, max(1, top // (nb_ + 1))))
        a_ = draw(st.integers(0, top - st_ * nb_))
        inc = [a_ + st_ * i for i in range(nb_ + 1)]
        flavour = draw(st.sampled_from(['increasing', 'decreasing', 'wrapping', 'swapped']))
        if flavour == 'increasing':
            e, why, expect = inc, 'uniform', 'accept'
        elif flavour == 'decreasing':
            e, why, expect = inc[::-1], 'unsorted', 'refuse'
        elif flavour == 'wrapping' and int_dtype in ('uint8', 'uint16') and nb_ >= 2:
            mod = int(np.iinfo(int_dtype).max) + 1
            step = draw(st.integers(mod // 4, mod // 2))
            e = [(a_ + step * i) % mod for i in range(nb_ + 2)]
            why, expect = 'unsorted', 'refuse'
            if e == sorted(e) and len(set(e)) == len(e):
                why, expect = 'uniform', 'accept'
        else:
            e = list(inc)
            if nb_ >= 1:
                e[0], e[1] = e[1], e[0]
            why, expect = 'unsorted', 'refuse'
    return {'kind': 'edges', 'edges': e, 'why': why, 'expect': expect, 'as_list': draw(st.booleans()), 'how': draw(st.sampled_from(['ctor', 'setter'])), 'as_range': as_range, 'int_dtype': int_dtype}


@st.composite
def mi_big_cases(draw, precision):
    """ONE update of 150 000+ traces with two bins and two classes, samples depending on the class: single (bin, class) cells receive more
    than 65 536 traces from one batch"""
    g = np.random.Generator(np.random.PCG64(draw(st.integers(0, 2 ** 63))))
    n = 150000 + draw(st.integers(0, 60))
    off, w = draw(st.integers(0, 50)), draw(st.sampled_from([1, 7, 49]))
    edges = [off, off + w, off + 2 * w]
    data = g.integers(0, 2, size=(n, 1)).astype('uint8')
    flip = g.random(n) < draw(st.sampled_from([0.05, 0.1, 0.2]))
    bin_of = np.where(flip, 1 - data[:, 0], data[:, 0])
    tdt = draw(st.sampled_from(['uint8', 'int16', 'float32']))
    traces = (off + w * bin_of + g.integers(0, w, size=n)).astype(tdt).reshape(n, 1)
    return {'kind': 'mi', 'precision': precision, 'edges': edges, 'edges_kind': 'int', 'edges_form': 'list', 'edges_float': draw(st.booleans()),
            'bins_number': None, 'partitions': [0, 1], 'traces': traces, 'data': data, 'cuts': [], 'independent': [],
            'mid_computes': [False], 'compute_twice': False}


def unit_mi_big(ctx, n):
    for i, precision in enumerate(['uint32', 'float64', 'int64']):
        hyp.run(ctx, mi_big_cases(precision), check_mi, n, shrink_budget=0, seed_extra=i)


def unit_mi(ctx, precision, tdtypes, n):
    hyp.run(ctx, mi_cases(precision, tdtypes), check_mi, n, shrink_budget=60 if ctx.tier == 'quick' else 400)


def unit_edges(ctx, n):
    hyp.run(ctx, edge_cases(), check_edges, n)


GROUPS = [('uint8', ['uint8', 'float32']), ('uint16', ['int16', 'float64']), ('uint32', ['uint8', 'float32']), ('uint32', ['int16', 'float64']), ('float64', ['int8', 'float32']), ('float32', ['uint16', 'float64']),
          ('uint32', ['int32', 'float64']), ('int64', ['uint8', 'float32']), ('uint32', ['int8', 'float64']), ('float64', ['int16', 'float32'])]


def units(tier):
    q = tier == 'quick'
    us = [{'name': 'edge-lists-%d' % i, 'fn': 'unit_edges', 'kwargs': {'n': 2500 if q else 30000}} for i in range(2)]
    for rep in range(2):
        for gi, (precision, tdts) in enumerate(GROUPS):
            if rep == 1 and (gi >= 8 or gi < 2):
                continue
            us.append({'name': 'mi-%s-%s-%d' % (precision, '+'.join(tdts), rep), 'fn': 'unit_mi',
                       'kwargs': {'precision': precision, 'tdtypes': tdts, 'n': 800 if q else 10000}})
    us.append({'name': 'mi-one-big-batch', 'fn': 'unit_mi_big', 'kwargs': {'n': 2 if q else 12}})
    return us


def selftest():
    return omia.selftest()


# dimensions added after the fourth and fifth round of seeded changes (DESIGN.md 8.3, 8.4); part of the rule reported in the evidence
RULE += ' Added with the fourth and fifth round of seeded changes: integer bin edges given as integer ndarrays (increasing / decreasing / constant step modulo 2^bits / swapped); uint8 / uint16 counters with more traces than the dtype can count in total.'
