"""C06 — DES/TDES encrypt/decrypt and every intermediate stop point conform to FIPS 46-3."""
import itertools

import numpy as np
from hypothesis import strategies as st

from scared import des
from vlib import gen, hyp
from vlib.core import Violation, must
from vlib.oracles import des_ref as R

PROP = 'C06'
LEVEL = 'exploration'
TECHNIQUE = 'complete enumeration of (direction, key form, at_des, at_round, after_step, broadcast shape) with generated keys/blocks, differential against an independent bit-level FIPS 46-3 reference; Hypothesis-generated calls on top'
RULE = ('cases = every (encrypt|decrypt) x key form (8/16/24 master, 128/256/384 expanded) x at_des x at_round 0..15 x after_step 0..9 x broadcast shape, random keys/blocks each; '
        'primitive cases: IP/FP/E/P/invP on all unit vectors and random states, all 8x64 S-box inputs; Hypothesis-generated calls. '
        'Non-trivial = stop point strictly inside the cipher, TDES, expanded key, or a primitive case; distinct = digest of (config, keys, blocks).')
LEVEL_TEXT = ('All 17 920 stop-point/shape/key-form configurations are enumerated in every run (data sampled), each compared with a bit-list FIPS 46-3 reference written from the '
              'standard tables (standard row/column S-box layout, not scared\'s), validated at start on published vectors and 2100 vectors of an independent C implementation. '
              'Primitives are checked on every unit vector and every S-box input. Exploration: the 2^120 data space is sampled.')
LEVEL_NOTE = 'trusted: vlib/oracles/des_ref.py (self-test each run), the Steps -> intermediate mapping documented in DESIGN §3 C06 (it follows the docstrings of des.Steps)'
ASSUMPTIONS = ['reference cipher correct (self-test at start, failure = harness error)', 'result shapes compared after squeeze (N=1 batches collapse, as implemented and documented for N>1)']

KEY_FORMS = (8, 16, 24, 128, 256, 384)
SHAPES = ('one-one', 'many-one', 'one-many', 'paired')
DTYPES = ('uint8', 'int16', 'int64', 'uint32')


# the ten operations of a DES round in the order of the reference (which stops after operation number `step`)
DES_STEP_NAMES = ['INITIAL_PERMUTATION', 'EXPANSIVE_PERMUTATION', 'ADD_ROUND_KEY', 'SBOXES', 'PERMUTATION_P', 'XOR_WITH_SAVED_LEFT_RIGHT', 'PERMUTE_RIGHT_LEFT',
                  'INV_PERMUTATION_P_RIGHT', 'INV_PERMUTATION_P_DELTA_RIGHT', 'FINAL_PERMUTATION']

def _key_arg(master, form):
    """master: (n, 8|16|24) uint8 -> the key argument in the requested form"""
    if form <= 24:
        return master
    out = []
    for m in master:
        exp = []
        for i in range(0, len(m), 8):
            for rk in R.schedule_words(bytes(m[i:i + 8])):
                exp += rk
        out.append(exp)
    return np.array(out, dtype='uint8')


def check_stop(ctx, case):
    mode, at_des, rnd, step, shape, form = case['mode'], case['at_des'], case['at_round'], case['after_step'], case['shape'], case['form']
    master, blocks, dt = case['keys'], case['blocks'], case['dtype']
    karg = _key_arg(master, form)
    if shape == 'one-one':
        a_state, a_key = blocks[0], karg[0]
    elif shape == 'many-one':
        a_state, a_key = blocks, karg[0]
    elif shape == 'one-many':
        a_state, a_key = blocks[0], karg
    else:
        a_state, a_key = blocks, karg
    a_state = a_state.astype(dt)
    a_key = a_key.astype(dt)
    f = des.encrypt if mode == 'encrypt' else des.decrypt
    kw = {}
    if rnd is not None:
        kw['at_round'] = rnd
    if step is not None:
        kw['after_step'] = getattr(des.Steps, DES_STEP_NAMES[step]) if case.get('step_enum') else step      # plain int, or the enumeration member selected by the NAME of the operation
    if at_des is not None:
        kw['at_des'] = at_des
    if case.get('prime'):
        # same array objects used by an earlier call with other contents, then overwritten in place
        s_buf, k_buf = a_state.copy(), a_key.copy()
        k_buf[...] = np.roll(a_key, 1, axis=-1)
        s_buf[...] = np.roll(a_state, 3, axis=-1)
        must(case, 'des.%s (priming call)' % mode, f, s_buf, k_buf, **kw)
        k_buf[...] = a_key
        s_buf[...] = a_state
        a_state, a_key = s_buf, k_buf
    if not case.get('prime'):
        a_state, a_key = gen.L(case, a_state), gen.L(case, a_key, 3)       # C / Fortran / strided / negative-stride views
    s0, k0 = a_state.copy(), a_key.copy()
    out = must(case, 'des.%s(%s, form=%d, shape=%s)' % (mode, kw, form, shape), f, a_state, a_key, **kw)
    if case.get('hold', gen.layout_of(case, 7) in ('F', 'strided')):
        # the result is kept while the function is called again with other arguments of the same shapes: it must not change
        try:
            f(np.roll(a_state, 1, axis=-1), np.roll(a_key, 1, axis=-1), **kw)
        except Exception:
            pass
    npass = master.shape[1] // 8
    npass = 1 if npass == 1 else 3
    e_des = (npass - 1) if at_des is None else at_des
    # documented defaults: last round, last step (final permutation), last DES pass
    e_rnd, e_step = (15 if rnd is None else rnd), (9 if step is None else step)
    n = max(len(blocks) if shape in ('many-one', 'paired') else 1, len(master) if shape in ('one-many', 'paired') else 1)
    kk = master if shape in ('one-many', 'paired') else np.repeat(master[:1], n, axis=0)
    bb = blocks if shape in ('many-one', 'paired') else np.repeat(blocks[:1], n, axis=0)
    exp = np.array([R.stop_point(list(map(int, b)), R.split_keys(bytes(k)), mode, e_des, e_rnd, e_step) for k, b in zip(kk, bb)], dtype='int64').squeeze()
    if not isinstance(out, np.ndarray) or out.shape != exp.shape or not np.array_equal(out.astype('int64'), exp):
        raise Violation('des.%s at_des=%s at_round=%s after_step=%s form=%d %s: differs from FIPS 46-3 reference (got %s, expected %s)' % (
            mode, at_des, rnd, step, form, shape, np.asarray(out).tolist() if np.size(out) <= 16 else 'shape %s' % (np.shape(out),), exp.tolist() if exp.size <= 16 else '…'), case)
    if not (np.array_equal(a_state, s0) and np.array_equal(a_key, k0)):
        raise Violation('des.%s modified the caller\'s arrays' % mode, case)
    if rnd is None and step is None and at_des is None:
        g = des.decrypt if mode == 'encrypt' else des.encrypt
        back = must(case, 'inverse call', g, out, a_key)
        if np.shape(back) != bb.squeeze().shape or not np.array_equal(np.asarray(back).astype('int64'), bb.squeeze().astype('int64')):
            raise Violation('des inverse(%s(x)) != x (form=%d, %s)' % (mode, form, shape), case)
    inside = not (e_des == npass - 1 and e_rnd == 15 and e_step == 9)
    ctx.case(case, inside or form != 8 or shape in ('one-many', 'paired'),
             ['mode:' + mode, 'form:%d' % form, 'shape:' + shape, 'dtype:' + dt, 'inside' if inside else 'full', 'args:%s%s%s' % ('d' if at_des is not None else '-', 'r' if rnd is not None else '-', 's' if step is not None else '-')]
             + (['step:%d' % step] if step is not None else []) + (['step_as_enum'] if case.get('step_enum') else []) + (['same_arrays_reused'] if case.get('prime') else []),
             key=(mode, at_des, rnd, step, shape, form, dt, master, blocks, bool(case.get('step_enum')), bool(case.get('prime'))))


def _mk(mode, form, at_des, rnd, step, shape, dt, g):
    ks = {8: 8, 16: 16, 24: 24, 128: 8, 256: 16, 384: 24}[form]
    n = int(g.integers(1, 6)) if shape != 'one-one' else 1
    keys = g.integers(0, 256, size=(n if shape in ('one-many', 'paired') else 1, ks)).astype('uint8')
    blocks = g.integers(0, 256, size=(n if shape in ('many-one', 'paired') else 1, 8)).astype('uint8')
    for arr in (keys, blocks):
        # batches with repeated rows: first row == last row with other rows in between, or all rows equal
        if len(arr) >= 3:
            r = int(g.integers(4))
            if r == 0:
                arr[-1] = arr[0]
            elif r == 1:
                arr[:] = arr[0]
    return {'kind': 'stop', 'mode': mode, 'form': form, 'at_des': at_des, 'at_round': rnd, 'after_step': step, 'shape': shape, 'dtype': dt,
            'keys': keys, 'blocks': blocks}


def _configs(mode):
    for form in KEY_FORMS:
        deses = [None, 0] if form in (8, 128) else [None, 0, 1, 2]
        for shape in SHAPES:
            yield (mode, form, None, None, None, shape)
        # one argument left to its default: (at_round omitted, step given) and (round given, after_step omitted), with and without at_des
        for at_des in deses:
            for si, step in enumerate(range(10)):
                yield (mode, form, at_des, None, step, SHAPES[si % len(SHAPES)])
            for rnd in range(16):
                yield (mode, form, at_des, rnd, None, SHAPES[rnd % len(SHAPES)])
            yield (mode, form, at_des, None, None, SHAPES[0])
        for at_des in deses:
            for rnd, step in itertools.product(range(16), range(10)):
                for shape in SHAPES:
                    if at_des is None and (rnd * 10 + step + SHAPES.index(shape)) % 4:
                        continue   # at_des=None is the same code path as at_des=last: thinned
                    yield (mode, form, at_des, rnd, step, shape)


def unit_enum(ctx, mode, shard, nshards, reps):
    def cases():
        for i, cfg in enumerate(_configs(mode)):
            if i % nshards != shard:
                continue
            for rep in range(reps):
                g = gen.rng(ctx.seed, cfg, rep)
                dt = 'uint8' if (i + rep) % 3 else DTYPES[int(g.integers(len(DTYPES)))]
                c = _mk(*cfg, dt, g)
                c['step_enum'] = bool(g.integers(2)) if cfg[4] is not None else False
                c['prime'] = bool(g.integers(4) == 0)
                yield c
    hyp.run_enum(ctx, cases(), check_stop)


@st.composite
def stop_cases(draw):
    mode = draw(st.sampled_from(['encrypt', 'decrypt']))
    form = draw(st.sampled_from(KEY_FORMS))
    ks = {8: 8, 16: 16, 24: 24, 128: 8, 256: 16, 384: 24}[form]
    full = draw(st.integers(0, 7)) == 0
    at_des = draw(st.sampled_from([None, 0] if ks == 8 else [None, 0, 1, 2]))
    rnd, step = (None, None) if full else (draw(st.integers(0, 15)), draw(st.integers(0, 9)))
    if full:
        at_des = None
    else:
        omit = draw(st.sampled_from(['none', 'none', 'none', 'round', 'step']))
        if omit == 'round':
            rnd = None
        elif omit == 'step':
            step = None
    shape = draw(st.sampled_from(SHAPES))
    n = 1 if shape == 'one-one' else draw(st.integers(1, 3))
    nk = n if shape in ('one-many', 'paired') else 1
    nb = n if shape in ('many-one', 'paired') else 1
    keys = np.frombuffer(draw(st.binary(min_size=nk * ks, max_size=nk * ks)), dtype='uint8').reshape(nk, ks).copy()
    blocks = np.frombuffer(draw(st.binary(min_size=nb * 8, max_size=nb * 8)), dtype='uint8').reshape(nb, 8).copy()
    return {'kind': 'stop', 'mode': mode, 'form': form, 'at_des': at_des, 'at_round': rnd, 'after_step': step, 'shape': shape,
            'dtype': draw(st.sampled_from(DTYPES)), 'keys': keys, 'blocks': blocks,
            'step_enum': draw(st.booleans()) if step is not None else False, 'prime': draw(st.booleans())}


def unit_generated(ctx, n):
    hyp.run(ctx, stop_cases(), check_stop, n)


# ------------------------------------------------------------------------------------------------
def _ref_prim(name, row):
    row = list(map(int, row))
    if name == 'initial_permutation':
        return R.pack(R.perm(R.bits(row), R.IP))
    if name == 'final_permutation':
        return R.pack(R.perm(R.bits(row), R.FP))
    if name == 'expansive_permutation':
        return R.pack(R.perm(R.bits(row), R.E), 6)
    if name == 'sboxes':
        return R.pack(R.sbox(R.bits(row, 6)), 4)
    if name == 'permutation_p':
        return R.pack(R.perm(R.bits(row, 4), R.P))
    if name == 'inv_permutation_p':
        return R.pack(R.invP(R.bits(row)), 4)
    raise ValueError(name)


PRIM_IN = {'initial_permutation': (8, 256), 'final_permutation': (8, 256), 'expansive_permutation': (4, 256), 'sboxes': (8, 64),
           'permutation_p': (8, 16), 'inv_permutation_p': (4, 256)}


def check_prim(ctx, case):
    name, x = case['prim'], case['state']
    x0 = x.copy()
    if name == 'add_round_key':
        out = must(case, 'des.add_round_key', des.add_round_key, x, case['keys'])
        exp = np.bitwise_xor(x.astype('int64'), case['keys'].astype('int64'))
    else:
        out = must(case, 'des.' + name, getattr(des, name), x)
        w = x.shape[-1]
        rows = np.array([_ref_prim(name, r) for r in x.reshape(-1, w)], dtype='int64')
        exp = rows.reshape(x.shape[:-1] + (rows.shape[-1],))
    if np.shape(out) != exp.shape or not np.array_equal(np.asarray(out).astype('int64'), exp):
        raise Violation('des.%s differs from its FIPS 46-3 table' % name, case)
    if not np.array_equal(x, x0):
        raise Violation('des.%s modified its input' % name, case)
    ctx.case(case, True, ['prim:' + name])


def unit_primitives(ctx, reps):
    def cases():
        g = gen.rng(ctx.seed, 'prims')
        for name, (w, hi) in PRIM_IN.items():
            nb = {256: 8, 64: 6, 16: 4}[hi]
            units = np.zeros((w * nb + 1, w), dtype='uint8')
            for i in range(w * nb):
                units[i, i // nb] = 1 << (nb - 1 - i % nb)
            yield {'kind': 'prim', 'prim': name, 'state': units}
            yield {'kind': 'prim', 'prim': name, 'state': (hi - 1 - units).astype('uint8')}
            for _ in range(reps):
                shp = [(w,), (int(g.integers(1, 6)), w), (2, int(g.integers(1, 4)), w)][int(g.integers(3))]
                yield {'kind': 'prim', 'prim': name, 'state': g.integers(0, hi, size=shp).astype('uint8')}
        # every S-box entry: word position p takes all 64 values
        for p in range(8):
            s = g.integers(0, 64, size=(64, 8)).astype('uint8')
            s[:, p] = np.arange(64)
            yield {'kind': 'prim', 'prim': 'sboxes', 'state': s}
        for _ in range(reps):
            n = int(g.integers(1, 5))
            sh = [((8,), (8,)), ((8,), (n, 8)), ((n, 8), (8,)), ((n, 8), (n, 8))][int(g.integers(4))]
            yield {'kind': 'prim', 'prim': 'add_round_key', 'state': g.integers(0, 64, size=sh[0]).astype('uint8'), 'keys': g.integers(0, 64, size=sh[1]).astype('uint8')}
    hyp.run_enum(ctx, cases(), check_prim)


def units(tier):
    q = tier == 'quick'
    ns = 6
    us = [{'name': 'enum-%s-%d' % (m, i), 'fn': 'unit_enum', 'kwargs': {'mode': m, 'shard': i, 'nshards': ns, 'reps': 1 if q else 24}}
          for m in ('encrypt', 'decrypt') for i in range(ns)]
    us.append({'name': 'primitives', 'fn': 'unit_primitives', 'kwargs': {'reps': 30 if q else 2000}})
    for i in range(2 if q else 6):
        us.append({'name': 'generated-%d' % i, 'fn': 'unit_generated', 'kwargs': {'n': 300 if q else 8000}})
    return us


def selftest():
    return R.selftest()


def replay(ctx, case):
    (check_prim if case['kind'] == 'prim' else check_stop)(ctx, case)
