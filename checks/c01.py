"""C01 — incremental distinguishers are invariant to how traces are split into batches.

A case is a data set plus a *history*: an ordered partition of the traces into consecutive non-empty batches with compute()
calls (single or doubled) interleaved at arbitrary points.  The history object is compared, at every compute, with a twin of
the same class that receives the same prefix of traces in ONE batch and computes once; processed_traces is checked after
every step; doubled computes must be bit-identical.
"""
import logging
import warnings

import numpy as np
from hypothesis import strategies as st

import scared
from vlib import dist, gen, hyp
from vlib.core import Violation, must
from vlib.oracles import stats
from checks.c04 import _bound

PROP = 'C01'
LEVEL = 'exploration'
TECHNIQUE = ('history generation (Hypothesis composite strategy over ordered partitions into batches with interleaved compute / double-compute operations, shrinking the whole history as one value) '
             'with a differential oracle: a one-shot twin of the same class per compute point; bit-identity when all sums are exactly representable, precision-level tolerance otherwise')
RULE = ('case = (kind in cpa|cpa_alt|dpa|anova|nicv|snr|mia(fixed edges)|template build|template matching static|template matching dpa|t-test accumulator, precision, trace dtype, n in 2..60 traces, '
        '1..6 samples, word shape, history of update(k>=1)/compute/compute-twice operations covering all traces). Non-trivial = at least 2 updates and (a compute strictly between two updates or a batch of one trace); '
        'distinct = digest of the materialised case.')
LEVEL_TEXT = ('Every generated history is executed on the real object; after each step processed_traces must equal the prefix length, every compute must equal the result of a fresh object fed the same prefix in one batch '
              '(within the rounding of the precision; for integer-valued data whose sums are exact the results are in fact bit-identical on this tree, which is counted, not required), and two computes in a row must be bit-identical. '
              'Exploration over sampled data and histories; batches of one trace, computes between any two batches and a last batch of one trace are forced to occur frequently.')
LEVEL_NOTE = 'trusted: a fresh object fed one batch (its correctness is C03/C04/C13/C14/C09 territory); kernel choices are forced through the SCARED_VERIF hook so that a case replays exactly'
ASSUMPTIONS = [
    'real-valued data: comparison tolerance = first-order bound of the statistic at the requested precision x number of traces; cells whose bound exceeds 5% of the value are skipped and counted',
    'template matching objects are TemplateAttack / TemplateDPAAttack instances after build(), driven through update()/compute()',
    'MIA is used with explicit bin edges (automatic edges are frozen from the first batch by design)',
]

KINDS = ['cpa', 'cpa_alt', 'dpa', 'anova', 'nicv', 'snr', 'mia', 'tbuild', 'tmatch_static', 'tmatch_dpa', 'ttest']
CHEAP = ('cpa', 'cpa_alt', 'dpa', 'ttest')
CLASS_LISTS = [[0, 1], [0, 1, 2], [0, 1, 2, 3], [2, 0, 1], [0, 1, 2, 3, 4, 5, 6, 7, 8], list(range(10)), [5, 1, 9, 300, 2]]


class _Sut:
    """uniform update/compute/processed face; compute() returns a dict of named observables"""

    def __init__(self, case):
        kind = case['dist']
        self.kind = kind
        prec = case['precision']
        if kind in ('cpa', 'cpa_alt', 'dpa'):
            self.o = dist.make(kind, precision=prec)
        elif kind in ('anova', 'nicv', 'snr'):
            self.o = dist.make(kind, precision=prec, partitions=list(case['partitions']))
            self.o._verif_force_kernel = list(case['kernels'])
        elif kind == 'mia':
            self.o = scared.MIADistinguisher(bin_edges=[float(e) for e in case['edges']], partitions=list(case['partitions']))
        elif kind == 'tbuild':
            self.o = dist.TemplateBuildDistinguisher(partitions=list(case['partitions']), precision=prec)
            self.o._verif_force_kernel = list(case['kernels'])
        elif kind == 'ttest':
            self.o = scared.TTestThreadAccumulator(precision=prec)
        else:
            @scared.reverse_selection_function
            def rsf(lab):
                return lab

            @scared.attack_selection_function(words=0, guesses=range(3))
            def asf(hyp, guesses):
                return hyp
            cont = scared.Container(dist.ram_ths(samples=case['build_traces'], lab=case['build_labels']))
            if kind == 'tmatch_dpa':
                self.o = scared.TemplateDPAAttack(container_building=cont, selection_function=asf, reverse_selection_function=rsf,
                                                  model=scared.Value(), precision=prec, partitions=list(case['partitions']))
            else:
                self.o = scared.TemplateAttack(container_building=cont, reverse_selection_function=rsf,
                                               model=scared.Value(), precision=prec, partitions=list(case['partitions']))
            self.o._build_analysis._verif_force_kernel = [0] * 64
            self.o.build()

    def update(self, traces, data):
        if self.kind == 'ttest':
            return self.o.update(traces)
        return self.o.update(traces, data)

    def compute(self):
        with warnings.catch_warnings():
            warnings.simplefilter('ignore')
            if self.kind == 'ttest':
                self.o.compute()
                return {'mean': np.array(self.o.mean), 'var': np.array(self.o.var)}
            r = self.o.compute()
            out = {'result': np.array(r)}
            if isinstance(r, np.ndarray) and r.flags.writeable:
                r[...] = -12345.0              # the caller owns the returned array: overwriting it must not influence later computes
            if self.kind == 'tbuild':
                out['pooled_covariance'] = np.array(self.o.pooled_covariance)
            return out

    @property
    def processed(self):
        return self.o.processed_traces


def _tolerances(case, upto, ref):
    """per-observable absolute tolerance for the rounded regime (None = skip cell mask handled by caller)"""
    kind = case['dist']
    precision = case['precision']
    eps = float(np.finfo(precision).eps)
    tr = case['traces'][:upto]
    n = tr.shape[0]
    mx = float(np.max(np.abs(tr.astype('float64')))) + 1.0
    if kind in ('cpa', 'cpa_alt', 'dpa', 'anova', 'nicv', 'snr'):
        d2 = case['data'][:upto].reshape(n, -1)
        if kind == 'dpa':
            val, tol, defined = stats.dpa(tr, d2, eps)
        elif kind in ('cpa', 'cpa_alt'):
            val, tol, defined = stats.pearson(tr, d2, eps)
        else:
            val, tol, defined = stats.partitioned(kind, tr, d2, list(case['partitions']), eps)
        tol = tol * n * 2
        # real-valued data: undefined cells (zero variance up to rounding) and ill-conditioned ones carry rounding noise only
        skip = ~defined | (tol > 0.05 * np.maximum(np.abs(np.nan_to_num(val)), 1e-30))
        return {'result': (tol, skip)}
    if kind == 'mia':
        return {'result': (np.zeros(1), None)}
    if kind == 'tbuild':
        return {'result': (np.full(1, 64 * eps * n * mx), None), 'pooled_covariance': (np.full(1, 64 * eps * n * mx * mx), None)}
    if kind == 'ttest':
        return {'mean': (np.full(1, 16 * eps * n * mx), None), 'var': (np.full(1, 64 * eps * n * mx * mx), None)}
    # template matching: same templates in both objects; only the accumulation order of the scores differs
    scale = float(np.nanmax(np.abs(10.0 - np.asarray(ref['result'], dtype='float64')))) + 1.0
    return {'result': (np.full(1, 64 * eps * n * scale), None)}


def _compare(case, step, upto, got, ref, exact, ctx=None):
    for key in ref:
        a, b = np.asarray(got[key]), np.asarray(ref[key])
        if a.shape != b.shape:
            raise Violation('step %d: %s has shape %s, a one-batch object on the same %d traces gives %s' % (step, key, a.shape, upto, b.shape), case)
        if exact and dist.same(a, b):
            continue
        if exact and ctx is not None:
            # the statement allows the rounding of the precision even when all sums are exact (an implementation that updates means
            # incrementally is not bit-identical across splits): not identical -> fall back to the tolerance, and report how often
            ctx.count('exact_regime_not_bit_identical')
        if True:
            tol, skip = _tolerances(case, upto, ref)[key]
            a64, b64 = a.astype('float64').reshape(b.shape), b.astype('float64')
            tolb = np.broadcast_to(tol, b64.shape) if tol.size == 1 else tol.reshape(b64.shape)
            with np.errstate(invalid='ignore'):
                ok = (np.abs(a64 - b64) <= tolb) | (np.isnan(a64) & np.isnan(b64)) | (a64 == b64)
            if skip is not None:
                ok |= skip.reshape(b64.shape)
            if not ok.all():
                idx = tuple(int(v) for v in np.argwhere(~ok)[0])
                raise Violation('step %d: %s%s after %d traces is %r, one-batch result %r (tol %.3g)' % (step, key, list(idx), upto, float(a64[idx]), float(b64[idx]), float(tolb[idx])), case)


def run_history(ctx, case):
    logging.disable(logging.WARNING)
    try:
        _run_history(ctx, case)
    finally:
        logging.disable(logging.NOTSET)


def _run_history(ctx, case):
    kind = case['dist']
    traces, data = case['traces'], case['data']
    n = traces.shape[0]
    # template matching sums float terms (pseudo-inverse entries) batch by batch: never bit-identical across splits
    exact = case['regime'] == 'exact' and not kind.startswith('tmatch')
    sut = _Sut(case)
    pos = 0
    updates = 0
    compute_between = False
    size_one = False
    seen_compute_since_update = False
    last = None
    computes = 0
    bufs = None
    copied = False
    for step, op in enumerate(case['ops']):
        if op[0] == 'update':
            k = int(op[1])
            if pos >= n:
                continue
            k = max(1, min(k, n - pos))
            lt, ld = case.get('layout') or ('C', 'C')
            if case.get('same_buffer'):
                # one preallocated pair of arrays, refilled in place before every update (all batches have the same size)
                if bufs is None:
                    bufs = [np.array(traces[pos:pos + k], copy=True), np.array(data[pos:pos + k], copy=True)]
                else:
                    bufs[0][...] = traces[pos:pos + k]
                    bufs[1][...] = data[pos:pos + k]
                must(case, 'step %d: update with traces %d..%d (same buffers refilled in place)' % (step, pos, pos + k), sut.update, bufs[0], bufs[1])
            else:
                must(case, 'step %d: update with traces %d..%d' % (step, pos, pos + k), sut.update, gen.relayout(traces[pos:pos + k], lt), gen.relayout(data[pos:pos + k], ld))
            if seen_compute_since_update and updates > 0:
                compute_between = True
            seen_compute_since_update = False
            pos += k
            updates += 1
            size_one |= k == 1
            last = None
        elif op[0] == 'copy':
            # the analysis is forked at a checkpoint: a deep copy (or a pickle round trip) of the object goes on with the remaining operations.
            # Objects that cannot be copied (compiled lookup functions inside) are simply kept.
            import copy
            import pickle
            try:
                sut.o = copy.deepcopy(sut.o) if op[1] == 'deepcopy' else pickle.loads(pickle.dumps(sut.o))
                ctx.count('continued_on_a_copy')
                copied = True
            except Exception:
                ctx.count('copy_not_supported:' + kind)
        else:
            if pos == 0:
                continue
            got = must(case, 'step %d: compute after %d traces' % (step, pos), sut.compute)
            computes += 1
            seen_compute_since_update = True
            if last is not None:
                for key in got:
                    if not dist.same(got[key], last[key]):
                        raise Violation('step %d: two compute() calls without new data return different %s' % (step, key), case)
            if op[0] == 'compute2':
                again = must(case, 'step %d: second compute' % step, sut.compute)
                for key in got:
                    if not dist.same(got[key], again[key]):
                        raise Violation('step %d: two consecutive compute() calls return different %s' % (step, key), case)
            last = got
            twin = _Sut(case)
            twin.update(traces[:pos], data[:pos])
            ref = twin.compute()
            _compare(case, step, pos, got, ref, exact, ctx)
        if sut.processed != pos:
            raise Violation('step %d (%s): processed_traces = %s after feeding %d traces' % (step, op[0], sut.processed, pos), case)
    nontrivial = updates >= 2 and (compute_between or size_one)
    labels = ['kind:' + kind, 'prec:' + case['precision'], 'regime:' + case['regime'], 'tdtype:' + str(traces.dtype), 'updates:%s' % (updates if updates < 5 else '5+'),
              'word_ndim:%d' % (data.ndim - 1)]
    if case.get('same_buffer'):
        labels.append('same_buffer_refilled')
    if copied:
        labels.append('continued_on_a_copy')
    if compute_between:
        labels.append('compute_between_updates')
    if size_one:
        labels.append('batch_of_one')
    if case['ops'] and case['ops'][-1][0] != 'update' and len(case['ops']) >= 2 and case['ops'][-2][0] == 'update' and int(case['ops'][-2][1]) == 1:
        labels.append('last_batch_of_one')
    ctx.count('computes_compared', computes)
    ctx.case(case, nontrivial, labels)


def replay(ctx, case):
    run_history(ctx, case)


# ------------------------------------------------------------------------------------------------
@st.composite
def histories(draw, kind, precision, tdtypes, large=False):
    seed64 = draw(st.integers(0, 2 ** 63))
    g = np.random.Generator(np.random.PCG64(seed64))
    regime = draw(st.sampled_from(['exact', 'exact', 'rounded'])) if not large else 'exact'
    n = draw(st.one_of(st.integers(2, 10), st.integers(2, 60)))
    s = draw(st.integers(1, 6))
    if large:
        # tens of thousands of traces fed in a few very large batches (sizes around powers of two and off them)
        n = draw(st.sampled_from([4097, 16385, 20000, 32769, 65537])) + draw(st.integers(-2, 2))
        s = draw(st.integers(1, 2))
    tdt = draw(st.sampled_from(tdtypes if regime == 'exact' else [t for t in tdtypes if np.dtype(t).kind == 'f'] or ['float64']))
    case = {'kind': 'history', 'dist': kind, 'precision': precision, 'regime': regime}
    single_word = kind in ('tbuild', 'tmatch_static')
    if kind in ('cpa', 'cpa_alt', 'dpa'):
        wshape = draw(st.sampled_from([(), (1,), (2,), (3,), (2, 2), (2, 1, 2)]))
    elif kind == 'ttest':
        wshape = (1,)
    elif single_word:
        wshape = draw(st.sampled_from([(1,), ()])) if kind == 'tbuild' else (1,)
    elif kind == 'tmatch_dpa':
        wshape = (3,)
    else:
        wshape = draw(st.sampled_from([(1,), (2,), (3,), (2, 2)]))
    W = int(np.prod(wshape)) if wshape else 1
    B = _bound(n, precision)
    # data
    if kind in ('cpa', 'cpa_alt'):
        ddt = draw(st.sampled_from(['uint8', 'int16', 'int64', 'float32', 'float64']))
        data = g.integers(0, min(B, 9) + 1, size=(n, W)).astype(ddt)
    elif kind == 'dpa':
        data = g.integers(0, 2, size=(n, W)).astype('uint8')
    elif kind == 'ttest':
        data = np.zeros((n, 1), dtype='uint8')
    else:
        parts = draw(st.sampled_from(CLASS_LISTS if kind not in ('tmatch_static', 'tmatch_dpa', 'tbuild') else CLASS_LISTS[:4] + CLASS_LISTS[6:]))
        case['partitions'] = list(parts)
        pool = list(parts) + ([max(parts) + 1] if kind not in ('tmatch_static', 'tmatch_dpa') and draw(st.booleans()) else [])
        lab = g.choice(pool, size=(n, W))
        ddt = draw(st.sampled_from([d for d in gen.CLASS_DTYPES if int(lab.max()) <= np.iinfo(d).max]))
        if np.dtype(ddt).kind == 'i' and len(pool) > len(parts) and max(parts) < 2 ** 16:
            for _ in range(2):
                lab[int(g.integers(n)), int(g.integers(W))] = -int(g.choice([1, 2, 5, 100]))   # negative foreign values
        data = lab.astype(ddt)
    # traces
    if regime == 'exact':
        if np.dtype(tdt).kind in 'iu':
            info = np.iinfo(tdt)
            lo, hi = max(-B, int(info.min)), min(B, int(info.max))
        else:
            lo, hi = -B, B
        traces = g.integers(lo, hi + 1, size=(n, s))
        if kind not in ('cpa', 'cpa_alt', 'dpa', 'ttest'):
            traces = np.clip(traces // 2 + (data.reshape(n, -1)[:, :1].astype('int64') * 3) % max(1, (hi - lo) // 2 + 1), lo, hi)
        traces = traces.astype(tdt)
    else:
        offset = draw(st.sampled_from([0.0, 1.0, 4.0] if precision == 'float32' else [0.0, 10.0, 1000.0]))
        traces = (g.normal(size=(n, s)) + offset + (data.reshape(n, -1)[:, :1].astype('float64') % 5) * 0.6).astype(tdt)
    case['traces'] = traces
    case['data'] = data.reshape((n,) + tuple(wshape)) if wshape else data.reshape(n)
    if kind == 'mia' and regime == 'exact' and draw(st.booleans()):
        # integer samples exactly on the edges of bins of width 49 / 98 / 103 (where k*w*(1/w) rounds below k), inside and outside the window
        w_ = draw(st.sampled_from([49, 98, 103]))
        info_ = np.iinfo(tdt) if np.dtype(tdt).kind in 'iu' else None
        lo_ = 0 if (info_ is not None and info_.min == 0) else -w_
        hi_ = min(int(info_.max), lo_ + 6 * w_) if info_ is not None else lo_ + 6 * w_
        nb_ = max(1, (hi_ - lo_) // w_ - draw(st.integers(0, 1)))
        on = lo_ + w_ * g.integers(0, nb_ + 2, size=(n, s))
        off = g.integers(lo_, hi_ + 1, size=(n, s))
        traces = np.clip(np.where(g.integers(0, 3, size=(n, s)) > 0, on, off), lo_ if info_ is None else int(info_.min), hi_).astype(tdt)
        case['traces'] = traces
        case['edges'] = [float(lo_ + w_ * i) for i in range(nb_ + 1)]
    elif kind == 'mia':
        lo_e = float(np.floor(float(traces.min()))) - draw(st.integers(0, 1))
        w = draw(st.sampled_from([1.0, 2.0, 7.0, 49.0]))
        nb = max(1, int(np.ceil((float(traces.max()) - lo_e) / w)) + draw(st.integers(-1, 1)))
        case['edges'] = [lo_e + w * i for i in range(nb + 1)]
    if kind.startswith('tmatch'):
        P = case['partitions']
        per = draw(st.integers(2, 4))
        bl = np.array([P[i % len(P)] for i in range(per * len(P))])
        g.shuffle(bl)
        centers = g.integers(-8, 9, size=(len(P), s))
        bt = centers[[P.index(int(v)) for v in bl]] + g.integers(-3, 4, size=(len(bl), s))
        if np.dtype(tdt).kind == 'u':
            bt = bt + 12
        case['build_traces'] = bt.astype(tdt)
        case['build_labels'] = bl.astype('int32').reshape(-1, 1)
    # history: ordered partition of n into batches, with computes interleaved
    ops = []
    left = n
    # sometimes every batch has the same size (then fed through one buffer refilled in place)
    equal_k = 0
    if not large and n >= 4 and draw(st.integers(0, 4)) == 0:
        divs = [d_ for d_ in (1, 2, 3, 4, 5) if n % d_ == 0 and n // d_ >= 2]
        equal_k = draw(st.sampled_from(divs)) if divs else 0
    while left > 0:
        if equal_k:
            style = 'equal'
        else:
            style = draw(st.sampled_from(['one', 'one', 'small', 'rest', 'any'])) if not large else draw(st.sampled_from(['rest', 'any', 'any', 'one', 'pow2']))
        if style == 'pow2':
            style = 'any' if left <= 16384 else 'pow2'
        k = min(equal_k, left) if style == 'equal' else 1 if style == 'one' else left if style == 'rest' else 16384 if style == 'pow2' else draw(st.integers(1, min(left, 4))) if style == 'small' else draw(st.integers(1, left))
        ops.append(['update', k])
        left -= k
        # (only for the kinds whose objects hold plain arrays: copying an object that carries a compiled lookup function recompiles it, seconds per copy)
        if left > 0 and kind in ('cpa', 'cpa_alt', 'dpa', 'ttest') and draw(st.integers(0, 7)) == 0:
            ops.append(['copy', draw(st.sampled_from(['deepcopy', 'pickle']))])
        c = draw(st.sampled_from(['none', 'none', 'compute', 'compute2', 'compute+compute']))
        if c == 'compute+compute':
            ops.extend([['compute', 0], ['compute', 0]])
        elif c != 'none':
            ops.append([c, 0])
        if len(ops) > (40 if not large else 6) and left > 0:
            ops.append(['update', left])
            left = 0
    if ops[-1][0] == 'update':
        ops.append([draw(st.sampled_from(['compute', 'compute2'])), 0])
    case['ops'] = ops
    case['kernels'] = [draw(st.integers(0, 1)) for _ in range(8)] * 8
    case['layout'] = [draw(st.sampled_from(gen.LAYOUTS)), draw(st.sampled_from(gen.LAYOUTS))]
    ups = [o for o in ops if o[0] == 'update']
    case['same_buffer'] = len(ups) >= 2 and len(set(int(o[1]) for o in ups)) == 1 and sum(int(o[1]) for o in ups) == n
    return case


def unit_generated(ctx, kinds, precision, tdtypes, n, large=False):
    for i, kind in enumerate(kinds):
        cheap = kind in CHEAP
        budget = (300 if cheap else 60) if ctx.tier == 'quick' else (3000 if cheap else 400)
        hyp.run(ctx, histories(kind, precision, tdtypes, large), run_history, n if (cheap or large) else max(1, n // 2),
                shrink_budget=budget if not large else 6, seed_extra=i)


def units(tier):
    q = tier == 'quick'
    us = []
    groups = [('float32', ['uint8', 'float32']), ('float64', ['int16', 'float64']), ('float32', ['int8', 'float32']), ('float64', ['uint8', 'float32']),
              ('float64', ['uint16', 'float64']), ('float32', ['int16', 'float64']), ('float64', ['int32', 'float64']), ('float32', ['uint8', 'float64'])]
    for gi, (precision, tdts) in enumerate(groups):
        us.append({'name': 'cheap-%s-%s' % (precision, '+'.join(tdts)), 'fn': 'unit_generated',
                   'kwargs': {'kinds': ['cpa', 'cpa_alt', 'dpa', 'ttest'], 'precision': precision, 'tdtypes': tdts, 'n': 150 if q else 2000}})
        us.append({'name': 'classes-%s-%s' % (precision, '+'.join(tdts)), 'fn': 'unit_generated',
                   'kwargs': {'kinds': ['anova', 'nicv', 'snr', 'mia', 'tbuild', 'tmatch_static', 'tmatch_dpa'], 'precision': precision, 'tdtypes': tdts, 'n': 120 if q else 1600}})
    for precision, tdts in (('float32', ['uint8', 'float32']), ('float64', ['int16', 'float64'])):
        us.append({'name': 'large-cheap-%s' % precision, 'fn': 'unit_generated', 'kwargs': {'kinds': ['cpa', 'cpa_alt', 'dpa', 'ttest'], 'precision': precision, 'tdtypes': tdts, 'n': 5 if q else 60, 'large': True}})
        us.append({'name': 'large-classes-%s' % precision, 'fn': 'unit_generated',
                   'kwargs': {'kinds': ['anova', 'nicv', 'snr', 'mia', 'tbuild', 'tmatch_static', 'tmatch_dpa'], 'precision': precision, 'tdtypes': tdts, 'n': 3 if q else 40, 'large': True}})
    return us


def selftest():
    return stats.selftest()
