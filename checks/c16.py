"""C16 — a rejected update leaves a distinguisher exactly as it was.

History = list of operations {good update, bad update(why), compute}; the real object receives all of them, a twin
receives only the calls that did not raise.  After every step processed_traces must equal the accepted rows and every
compute() must be bit-identical to the twin's (integer data in the exact regime, so kernel choice cannot matter).
"""
import numpy as np
from hypothesis import strategies as st

import scared
from vlib import dist, gen, hyp
from vlib.core import Violation, must

PROP = 'C16'
LEVEL = 'fault_enumeration'
RULE = ('history of update/compute calls on one distinguisher with rejected calls injected (enumerated: every rejection kind at '
        'every position of histories with <=3 accepted batches, for every distinguisher kind; generated: random longer histories). '
        'Non-trivial = at least one call that really raised after an accepted batch, or a refused first call followed by an accepted one; '
        'distinct = digest of the whole materialised history.')
TECHNIQUE = 'fault injection into generated and enumerated update/compute histories, differential against a twin that never saw the refused calls (Hypothesis + enumeration)'
LEVEL_TEXT = ('Every rejection kind the code really raises on is injected at every position of short histories for all 12 distinguisher/analysis kinds '
              '(enumerated), plus Hypothesis-generated longer histories; after every step the processed-trace count and every compute() are compared '
              'bit-exactly with a twin fed only the accepted calls. Fault enumeration over the finite set of rejection kinds x positions is the natural '
              'level: the property quantifies over fault positions, not over numerical inputs.')
LEVEL_NOTE = 'trusted: the twin object (same class, fresh instance) behaves correctly when it only sees valid calls (that is C01/C03/C04 territory); rejection kinds are those observed to raise'
DESIGN_REF = 'DESIGN.md §3 C16'
ASSUMPTIONS = [
    'a call counts as rejected iff it raised; calls the code accepts (e.g. a broadcastable 1-word CPA batch) are fed to the twin too',
    'twin comparison is bit-exact because all generated sums are exactly representable (integer traces, small magnitudes)',
    'template matching objects are exercised through TemplateAttack/TemplateDPAAttack.update after build()',
]

KINDS = ['cpa', 'cpa_alt', 'dpa', 'anova', 'nicv', 'snr', 'mia', 'tbuild', 'tmatch_dpa', 'tmatch_static', 'attack_cpa', 'attack_snr', 'run_cpa', 'run_snr']
CHEAP_KINDS = ['cpa', 'cpa_alt', 'dpa', 'attack_cpa']

# rejection kinds per distinguisher family.  'first' = only a fault when nothing has been accepted yet;
# 'later' = only a fault after an accepted batch (as a first call it would simply define the shape).
WHYS = {
    'cpa': ['traces_text_late', 'data_text_late', 'traces_list', 'data_list', 'traces_3d', 'traces_1d', 'traces_str', 'data_str', 'rows_more', 'rows_less', 'length', 'words'],
    'cpa_alt': ['traces_text_late', 'data_text_late', 'traces_list', 'data_list', 'traces_3d', 'traces_1d', 'traces_str', 'data_str', 'rows_more', 'rows_less', 'length', 'words'],
    'dpa': ['traces_text_late', 'data_text_late', 'traces_list', 'data_list', 'traces_3d', 'traces_1d', 'traces_str', 'data_str', 'rows_more', 'rows_less', 'length', 'words', 'dpa_range', 'dpa_dtype', 'data_float'],
    'anova': ['traces_nonfinite', 'traces_list', 'data_list', 'traces_3d', 'traces_1d', 'traces_str', 'data_str', 'traces_float16', 'traces_complex', 'rows_more', 'rows_less', 'length', 'words', 'data_float', 'data_int64', 'auto_gt255', 'auto_neg'],
    'tbuild': ['traces_list', 'data_list', 'traces_3d', 'traces_1d', 'traces_str', 'data_str', 'traces_float16', 'traces_complex', 'rows_more', 'rows_less', 'length', 'two_words', 'data_float', 'data_int64', 'auto_gt255', 'auto_neg'],
    'tmatch': ['traces_list', 'data_list', 'traces_3d', 'traces_1d', 'traces_str', 'data_str', 'rows_more', 'rows_less', 'length', 'before_build', 'hyp_undeclared'],
    'attack': ['sf_raises', 'length', 'rows_meta'],
}
for _k in ('nicv', 'snr', 'mia'):
    WHYS[_k] = WHYS['anova']
WHYS['tmatch_dpa'] = WHYS['tmatch_static'] = WHYS['tmatch']
WHYS['attack_cpa'] = WHYS['attack_snr'] = WHYS['attack']
# whole run() calls on a container (with a convergence step): refused on their first batch
WHYS['run_cpa'] = WHYS['run_snr'] = ['sf_raises', 'length', 'words', 'sf_raises_later']
FIRST_ONLY = {'dpa_range', 'dpa_dtype', 'auto_gt255', 'auto_neg', 'before_build'}
LATER_ONLY = {'length', 'words'}


# ------------------------------------------------------------------------------------------------
# SUT construction

def _selection_functions():
    @scared.reverse_selection_function
    def rsf(lab):
        return lab

    @scared.attack_selection_function(words=0, guesses=range(3))
    def asf(hyp, guesses):
        return hyp
    return rsf, asf


class _Obj:
    """uniform face over the kinds: update(traces, data) / compute() / processed_traces"""

    def __init__(self, case):
        kind = case['dist']
        self.kind = kind
        prec = case['precision']
        self.built = False
        if kind in dist.ALL_STANDALONE:
            parts = case.get('partitions')
            self.o = dist.make(kind, precision=prec, partitions=None if parts is None else list(parts),
                               bin_edges=case.get('bin_edges'))
        elif kind.startswith('tmatch'):
            rsf, asf = _selection_functions()
            ths = dist.ram_ths(samples=case['build_traces'], lab=case['build_labels'])
            cont = scared.Container(ths)
            if kind == 'tmatch_dpa':
                self.o = scared.TemplateDPAAttack(container_building=cont, selection_function=asf, reverse_selection_function=rsf,
                                                  model=scared.Value(), precision=prec, partitions=list(case['partitions']))
            else:
                self.o = scared.TemplateAttack(container_building=cont, reverse_selection_function=rsf,
                                               model=scared.Value(), precision=prec, partitions=list(case['partitions']))
        elif kind.startswith(('attack', 'run')):
            self.fail_next = [False]
            self.fail_after = [None]          # raise on the (k+1)-th batch of a run
            self.rows_log = []
            fail, fail_after, rows_log = self.fail_next, self.fail_after, self.rows_log

            @scared.attack_selection_function(guesses=range(2))
            def sf(d, guesses):
                if fail[0]:
                    raise RuntimeError('injected selection function failure')
                if fail_after[0] is not None:
                    if fail_after[0] == 0:
                        raise RuntimeError('injected selection function failure on a later batch')
                    fail_after[0] -= 1
                rows_log.append(d.shape[0])
                return np.stack([d, d ^ 1], axis=1)
            ckw = {'convergence_step': int(case['convergence_step'])} if case.get('convergence_step') else {}
            # any callable is accepted as discriminant: also one without a __name__ (a functools.partial of a documented discriminant)
            import functools
            disc = functools.partial(scared.maxabs) if case.get('disc_partial') else scared.maxabs
            if kind in ('attack_cpa', 'run_cpa'):
                self.o = scared.CPAAttack(selection_function=sf, model=scared.Value(), discriminant=disc, precision=prec, **ckw)
            else:
                self.o = scared.SNRAttack(selection_function=sf, model=scared.Value(), discriminant=disc, precision=prec,
                                          partitions=list(case['partitions']), **ckw)
        else:
            raise ValueError(kind)

    def build(self):
        self.o.build()
        self.built = True

    def update(self, traces, data):
        if self.kind.startswith('run'):
            # analysis run step: a whole container, cut in batches by the analysis (convergence step / container batch size)
            return self.o.run(scared.Container(dist.ram_ths(samples=traces, d=data)))
        if self.kind.startswith('attack'):
            # analysis process step: a batch object with samples/metadatas
            class _B:
                pass
            b = _B()
            b.samples = traces
            b.metadatas = {'d': data}
            return self.o.process(b)
        return self.o.update(traces, data)

    def compute(self):
        r = self.o.compute()
        extra = None
        if self.kind == 'tbuild':
            extra = np.array(self.o.pooled_covariance)
        return r, extra

    @property
    def processed(self):
        return self.o.processed_traces


# ------------------------------------------------------------------------------------------------
# executing a history

def _bad_args(case, op, last_good):
    """materialise the arguments of a bad call from the (good-looking) arrays stored in the op"""
    why = op['why']
    t, d = op['traces'], op['data']
    if why == 'traces_list':
        return t.tolist(), d
    if why == 'data_list':
        return t, d.tolist()
    if why == 'traces_str':
        return np.full(t.shape, 'x', dtype='U1'), d          # a 2-D array of the wrong kind (text)
    if why == 'data_str':
        return t, np.full(d.shape, 'x', dtype='U1')
    if why in ('traces_text_late', 'data_text_late'):
        # thousands of rows given as text that converts to numbers, except one entry far down the batch (beyond row 4096)
        rows = 4600
        reps = -(-rows // t.shape[0])
        tt, dd = np.tile(t, (reps, 1))[:rows], np.tile(d, (reps,) + (1,) * (d.ndim - 1))[:rows]
        if why == 'traces_text_late':
            tt = tt.astype('U12')
            tt[4500, 0] = 'n/a'
        else:
            dd = dd.astype('U12')
            dd[(4500,) + (0,) * (dd.ndim - 1)] = 'n/a'
        return tt, dd
    if why == 'traces_nonfinite':
        tt = t.astype('float32' if t.dtype.kind != 'f' else t.dtype)
        tt[0, 0] = np.nan      # (NaN, not inf: the final statistic at that sample is NaN whichever accumulation kernel handled the batch)
        # ... provided the trace belongs to a DECLARED class (value 0 always is): for a trace of an undeclared class one accumulation kernel ignores the
        # NaN and the other spreads it (0 x NaN in its mask product), a kernel-dependent difference of the unchanged code outside the numeric regimes
        d2 = d.copy()
        d2[0, ...] = 0
        return tt, d2
    if why == 'traces_float16':
        return t.astype('float16'), d               # the compiled kernels have no half-precision version: refused inside the kernel call
    if why == 'traces_complex':
        return t.astype('complex64'), d
    if why == 'traces_3d':
        return np.stack([t, t], axis=2), d          # (traces, samples, 2): not a trace matrix
    if why == 'traces_1d':
        return np.ascontiguousarray(t[:, 0]), d     # a vector instead of a matrix
    if why == 'rows_more':
        return t, np.concatenate([d, d[:1]], axis=0)
    if why == 'rows_less':
        return np.concatenate([t, t[:1]], axis=0), d
    if why == 'length':
        return np.concatenate([t, t[:, :1]], axis=1), d
    if why == 'words':
        return t, np.concatenate([d, d], axis=1)[:, :d.shape[1] + 1]
    if why == 'two_words':
        return t, np.concatenate([d, d], axis=1)
    if why == 'data_float':
        return t, d.astype('float64')
    if why == 'data_int64':
        return t, d.astype('int64')
    if why == 'dpa_range':
        d2 = d.copy()
        d2[0, 0] = 2
        return t, d2
    if why == 'dpa_dtype':
        return t, d.astype('int32')
    if why == 'auto_gt255':
        d2 = d.astype('uint16')
        d2[-1, -1] = 256 + int(d2[-1, -1])
        return t, d2
    if why == 'auto_neg':
        d2 = d.astype('int16')
        d2[0, 0] = -1 - int(d2[0, 0])
        return t, d2
    if why == 'hyp_undeclared':
        # a hypothesis value without template in the LAST guess column: the earlier columns are valid
        d2 = d.copy()
        d2[-1, -1] = int(max(case['partitions'])) + 3
        return t, d2
    if why in ('before_build', 'sf_raises', 'rows_meta', 'sf_raises_later'):
        return t, d
    raise ValueError(why)


def _cmp(case, step, a, b):
    ra, ea = a
    rb, eb = b
    if not dist.same(ra, rb):
        raise Violation('step %d: compute() differs from an object that never saw the rejected calls (max |diff| %s)' % (
            step, _maxdiff(ra, rb)), case)
    if ea is not None and not dist.same(ea, eb):
        raise Violation('step %d: pooled covariance differs from an object that never saw the rejected calls' % step, case)


def _maxdiff(a, b):
    try:
        return float(np.nanmax(np.abs(np.asarray(a, dtype='float64') - np.asarray(b, dtype='float64'))))
    except Exception:
        return 'shape %s vs %s' % (np.shape(a), np.shape(b))


def run_history(ctx, case):
    kind = case['dist']
    real = _Obj(case)
    twin = _Obj(case)
    is_tmatch = kind.startswith('tmatch')
    is_attack = kind.startswith(('attack', 'run'))
    is_run = kind.startswith('run')
    accepted_rows = 0
    accepted_calls = 0
    rejected_after_accept = 0
    rejected_first_then_accept = False
    pending_first_reject = False
    rejections = 0
    loose = False
    labels = ['kind:' + kind]
    for step, op in enumerate(case['ops']):
        o = op['op']
        if o == 'build':
            if not real.built:
                must(case, 'build()', real.build)
                twin.build()
        elif o == 'good':
            if is_tmatch and not real.built:
                must(case, 'build()', real.build)
                twin.build()
            must(case, 'step %d: valid update after %d accepted / %d rejected call(s)' % (step, accepted_calls, rejections),
                 real.update, op['traces'], op['data'])
            twin.update(op['traces'], op['data'])
            accepted_rows += op['traces'].shape[0]
            accepted_calls += 1
            if pending_first_reject:
                rejected_first_then_accept = True
        elif o == 'bad':
            why = op['why']
            if why in FIRST_ONLY and accepted_calls > 0:
                ctx.count('skipped_bad_not_applicable')
                continue
            if why in LATER_ONLY and accepted_calls == 0 and not is_tmatch:
                ctx.count('skipped_bad_not_applicable')
                continue
            if why == 'before_build' and real.built:
                ctx.count('skipped_bad_not_applicable')
                continue
            if is_tmatch and why != 'before_build' and not real.built:
                must(case, 'build()', real.build)
                twin.build()
            args = _bad_args(case, op, None)
            if is_attack and why == 'sf_raises':
                real.fail_next[0] = True
            if is_attack and why == 'rows_meta':
                args = (args[0], np.concatenate([args[1], args[1][:1]], axis=0))
            if is_run and why == 'sf_raises_later':
                # the run is refused on its second or third batch: the batches before it were accepted and stay accepted
                real.fail_after[0] = 1 + step % 2
                del real.rows_log[:]
            try:
                real.update(*args)
                raised = False
            except Exception:  # any exception = the call was refused
                raised = True
            finally:
                if is_attack:
                    real.fail_next[0] = False
                    real.fail_after[0] = None
            if raised and is_run and why == 'sf_raises_later':
                acc_rows = int(sum(real.rows_log))
                if acc_rows > 0:
                    twin.update(args[0][:acc_rows], args[1][:acc_rows])
                    accepted_rows += acc_rows
                    accepted_calls += 1
                    loose = True          # the twin finished a run, the analysis under test did not: only counts and compute() are comparable from here on
                    labels.append('run_refused_on_a_later_batch')
            if raised:
                rejections += 1
                labels.append('why:' + why)
                if accepted_calls > 0:
                    rejected_after_accept += 1
                else:
                    pending_first_reject = True
            else:
                # accepted by the code: not a fault, the twin gets the very same call
                ctx.count('bad_call_was_accepted:' + why)
                try:
                    twin.update(*args)
                except Exception as e:
                    raise Violation('step %d: call (%s) accepted after rejected calls but refused by a fresh twin: %s' % (step, why, e), case)
                accepted_rows += np.shape(args[0])[0]
                accepted_calls += 1
        elif o == 'compute':
            if accepted_calls == 0:
                try:
                    real.compute()
                except Exception:
                    pass
                else:
                    raise Violation('step %d: compute() succeeded although no batch was ever accepted' % step, case)
            else:
                ra = must(case, 'step %d: compute() after %d rejected call(s)' % (step, rejections), real.compute)
                _cmp(case, step, ra, twin.compute())
        if real.processed != accepted_rows:
            raise Violation('step %d (%s): processed_traces=%s but accepted rows=%d' % (step, op.get('why', o), real.processed, accepted_rows), case)
        if is_run and not loose:
            # what the analysis exposes (results, scores, convergence traces) is that of the accepted runs only
            for attr in ('results', 'scores', 'convergence_traces'):
                va, vb = getattr(real.o, attr), getattr(twin.o, attr)
                if (va is None) != (vb is None) or (va is not None and not dist.same(va, vb)):
                    raise Violation('step %d (%s): %s differs from an analysis that never saw the refused runs (%s vs %s)' % (
                        step, op.get('why', o), attr, 'None' if va is None else np.shape(va), 'None' if vb is None else np.shape(vb)), case)
    if accepted_calls > 0:
        ra = must(case, 'final compute() after %d rejected call(s)' % rejections, real.compute)
        _cmp(case, len(case['ops']), ra, twin.compute())
    nontrivial = rejected_after_accept > 0 or rejected_first_then_accept
    if rejected_after_accept:
        labels.append('rejected_after_accept')
    if rejected_first_then_accept:
        labels.append('first_call_rejected_then_accepted')
    ctx.case(case, nontrivial, labels)


# ------------------------------------------------------------------------------------------------
# generation

def _case_skeleton(kind, precision, L, W, parts):
    case = {'kind': 'history', 'dist': kind, 'precision': precision, 'L': L, 'W': W}
    if kind in ('anova', 'nicv', 'snr', 'mia', 'tbuild', 'attack_snr', 'run_snr') or kind.startswith('tmatch'):
        case['partitions'] = parts
    if kind == 'mia':
        case['bin_edges'] = [-8.0, 0.0, 8.0, 16.0, 24.0]
    return case


def _data_for(kind, g_int, n, W, nclasses):
    """g_int(lo, hi, shape) -> int array"""
    if kind in ('cpa', 'cpa_alt'):
        return g_int(0, 9, (n, W)).astype('uint8')
    if kind == 'dpa' or kind.startswith(('attack', 'run')):
        return g_int(0, 1, (n, W)).astype('uint8')
    if kind == 'tmatch_dpa':
        return g_int(0, nclasses - 1, (n, 3)).astype('uint8')
    if kind == 'tmatch_static':
        return g_int(0, nclasses - 1, (n, 1)).astype('uint8')
    return g_int(0, nclasses, (n, W)).astype('uint8')   # one value above the declared classes: undeclared values are accepted


@st.composite
def histories(draw, kind):
    precision = draw(st.sampled_from(['float32', 'float64']))
    L = draw(st.integers(1, 3))
    W = 1 if kind == 'tbuild' or kind.startswith('tmatch') else draw(st.integers(1, 3))
    nclasses = draw(st.integers(2, 4))
    auto = kind in ('anova', 'nicv', 'snr', 'mia', 'tbuild') and draw(st.booleans())
    case = _case_skeleton(kind, precision, L, W, None if auto else list(range(nclasses)))
    tdt = draw(st.sampled_from(['uint8', 'int16', 'float32', 'float64']))
    if kind.startswith('run'):
        case['convergence_step'] = draw(st.sampled_from([0, 2, 3, 5]))
    if kind.startswith(('attack', 'run')):
        case['disc_partial'] = draw(st.booleans())

    def g_int(lo, hi, shape):
        from hypothesis.extra import numpy as hnp
        return draw(hnp.arrays('int64', shape, elements=st.integers(lo, hi)))

    def traces(n):
        a = g_int(0, 20, (n, L))
        return a.astype(tdt)
    if kind.startswith('tmatch'):
        nb = 2 * nclasses + draw(st.integers(0, 3))
        lab = np.array([i % nclasses for i in range(nb)], dtype='uint8')[:, None]
        case['build_traces'] = traces(nb)
        case['build_labels'] = lab
    ops = []
    nops = draw(st.integers(1, 7))
    whys = WHYS[kind]
    for _ in range(nops):
        o = draw(st.sampled_from(['good', 'good', 'bad', 'bad', 'bad', 'compute']))
        if o == 'compute':
            ops.append({'op': 'compute'})
            continue
        n = draw(st.integers(1, 9 if kind.startswith('run') else 4))
        op = {'op': o, 'traces': traces(n), 'data': _data_for(kind, g_int, n, W, nclasses)}
        if o == 'bad':
            op['why'] = draw(st.sampled_from(whys))
        ops.append(op)
    case['ops'] = ops
    return case


def unit_generated(ctx, kind, n):
    cheap = kind in CHEAP_KINDS
    hyp.run(ctx, histories(kind), run_history, n, shrink_budget=(300 if cheap else 40) if ctx.tier == 'quick' else (3000 if cheap else 300))


def unit_enumerated(ctx, kinds, reps, computes=(False, True)):
    """every rejection kind x every position 0..3 of a history of 3 accepted batches (+ compute after each step)"""
    for kind in kinds:
        for why in WHYS[kind]:
            for pos in range(4):
                for with_compute in computes:
                    for rep in range(reps):
                        g = gen.rng(ctx.seed, kind, why, pos, with_compute, rep)
                        precision = ['float32', 'float64'][int(g.integers(2))]
                        L = int(g.integers(1, 4))
                        W = 1 if kind == 'tbuild' or kind.startswith('tmatch') else int(g.integers(1, 4))
                        nclasses = int(g.integers(2, 5))
                        auto = kind in ('anova', 'nicv', 'snr', 'mia', 'tbuild') and (why.startswith('auto') or bool(g.integers(2)))
                        case = _case_skeleton(kind, precision, L, W, None if auto else list(range(nclasses)))
                        tdt = ['uint8', 'int16', 'float32', 'float64'][int(g.integers(4))]
                        if kind.startswith('run'):
                            case['convergence_step'] = [0, 2, 3, 5][int(g.integers(4))]
                        if kind.startswith(('attack', 'run')):
                            case['disc_partial'] = bool(g.integers(2))

                        def g_int(lo, hi, shape):
                            return g.integers(lo, hi + 1, size=shape)

                        def traces(n):
                            return g_int(0, 20, (n, L)).astype(tdt)
                        if kind.startswith('tmatch'):
                            nb = 2 * nclasses + int(g.integers(0, 4))
                            case['build_traces'] = traces(nb)
                            case['build_labels'] = np.array([i % nclasses for i in range(nb)], dtype='uint8')[:, None]
                        ops = []
                        for i in range(4):
                            if i == pos:
                                n = int(g.integers(1, 5))
                                ops.append({'op': 'bad', 'why': why, 'traces': traces(n), 'data': _data_for(kind, g_int, n, W, nclasses)})
                                if with_compute:
                                    ops.append({'op': 'compute'})
                            if i < 3:
                                n = int(g.integers(1, 5))
                                ops.append({'op': 'good', 'traces': traces(n), 'data': _data_for(kind, g_int, n, W, nclasses)})
                                if with_compute:
                                    ops.append({'op': 'compute'})
                        case['ops'] = ops
                        try:
                            ctx.begin(case)
                            run_history(ctx, case)
                        except Violation as v:
                            if v.case is None:
                                v.case = case
                            ctx.violations.append(v)
                            return


def units(tier):
    q = tier == 'quick'
    us = []
    us.append({'name': 'enum-cheap', 'fn': 'unit_enumerated', 'kwargs': {'kinds': CHEAP_KINDS, 'reps': 3 if q else 100}})
    for k in KINDS:
        if k not in CHEAP_KINDS:
            us.append({'name': 'enum-' + k, 'fn': 'unit_enumerated',
                       'kwargs': {'kinds': [k], 'reps': 1 if q else 4, 'computes': (True,) if q else (False, True)}})
    for k in KINDS:
        cheap = k in CHEAP_KINDS
        n = (400 if cheap else 120) if q else (20000 if cheap else 3000)
        us.append({'name': 'gen-' + k, 'fn': 'unit_generated', 'kwargs': {'kind': k, 'n': n}})
    return us


def replay(ctx, case):
    run_history(ctx, case)


# dimensions added after the fourth and fifth round of seeded changes (DESIGN.md 8.3, 8.4); part of the rule reported in the evidence
RULE += ' Added with the fourth and fifth round of seeded changes: whole run() calls refused on their first batch or on a later batch (accepted batches stay accepted); 4600-row text batches with one unconvertible entry at row 4500.'
