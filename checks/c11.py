"""C11 — results are independent of run-time kernel selection and thread count.

One case = one data set fed in b batches.  The reference run uses kernel 1 on every batch with a single numba thread;
every other run forces another kernel sequence (all 2**b sequences for b <= 4, through the SCARED_VERIF hook) and another
thread count.  Integer-valued data (all sums exact): results and accumulators must be bit-identical.  Real-valued data:
results must agree within the rounding of the *requested precision* (also when the traces are stored narrower).
"""
import itertools
import warnings

import numpy as np
from hypothesis import strategies as st

import scared
from vlib import dist, gen, hyp
from vlib.core import Violation, HarnessError, must
from vlib.oracles import stats

PROP = 'C11'
LEVEL = 'exploration'
TECHNIQUE = ('differential testing with a harness-owned schedule: every forced sequence of accumulation kernels (complete for <= 4 batches) x generated numba thread counts '
             'against the all-kernel-1 single-thread run on Hypothesis-generated data; bit-identity when sums are exact, precision-level tolerance otherwise')
RULE = ('case = (kind in anova|nicv|snr|template build|mia|t-test accumulator, precision, class list with 2/8/9/10/64 values and undeclared values in the data, trace dtype/offset, b in 1..6 batches); '
        'runs = all 2**b kernel sequences for b <= 4 (16 sampled above) each with a thread count from {1,2,3,8,16}; for > 9 classes, MIA and t-test only the thread count varies. '
        'Non-trivial = at least one compared run used both kernels (or, for single-kernel kinds, more than one thread on >= 8 samples); distinct = digest of the case.')
LEVEL_TEXT = ('The kernel that runs on each batch is forced and logged through the SCARED_VERIF hook, so the 2**b schedules the timing-based selection could produce are enumerated instead of left to '
              'machine load; numba thread counts are set explicitly. Every run is compared with the reference run of the same data. Exploration: data are sampled; instruction-level interleavings '
              'inside a parallel kernel are sampled by repetition with up to 16 threads on larger arrays, not controlled.')
LEVEL_NOTE = 'trusted: the hook forces exactly the kernel it logs (asserted: log == forced sequence); reference run = kernel 1, one thread'
ASSUMPTIONS = [
    'hook fidelity: _verif_kernel_log must equal the forced sequence, otherwise the run is reported as a harness error',
    'the >9-classes rule is not bypassed: with more than 9 classes production never runs kernel 2, so only the thread count varies there',
    'data races inside a numba prange kernel are only sampled (threads 2..16, arrays up to 64 samples x 400 traces, several repetitions)',
    'rounded regime tolerance: first-order bound of the final formula at the requested precision x number of traces',
]

CLASS_LISTS = {2: [0, 1], 8: list(range(8)), 9: list(range(9)), 10: list(range(10)), 64: list(range(64)), 3: [5, 1, 3]}
THREADS = [1, 2, 3, 8, 16]


def _set_threads(t):
    import numba
    numba.set_num_threads(max(1, min(int(t), numba.config.NUMBA_NUM_THREADS)))


def _batches(case):
    n = case['traces'].shape[0]
    cuts = [0] + list(case['cuts']) + [n]
    return [(a, b) for a, b in zip(cuts, cuts[1:]) if b > a]


def _run(case, kernels, threads):
    """one full run; returns dict of observables"""
    kind = case['dist']
    precision = case['precision']
    traces, data = case['traces'], case['data']
    _set_threads(threads)
    try:
        with warnings.catch_warnings():
            warnings.simplefilter('ignore')
            if kind == 'ttest':
                acc = scared.TTestThreadAccumulator(precision=precision)
                for a, b in _batches(case):
                    must(case, 'TTestThreadAccumulator.update', acc.update, gen.L(case, traces[a:b]))
                must(case, 'TTestThreadAccumulator.compute', acc.compute)
                return {'sum': np.array(acc.sum), 'sum_squared': np.array(acc.sum_squared), 'mean': np.array(acc.mean), 'var': np.array(acc.var)}, []
            if kind == 'mia':
                obj = scared.MIADistinguisher(bin_edges=[float(e) for e in case['edges']], partitions=list(case['partitions']))
            elif kind == 'tbuild':
                obj = dist.TemplateBuildDistinguisher(partitions=list(case['partitions']), precision=precision)
            else:
                obj = dist.make(kind, precision=precision, partitions=list(case['partitions']))
            if kernels is not None:
                obj._verif_force_kernel = list(kernels)
            for a, b in _batches(case):
                must(case, '%s.update (kernels %s, %d threads)' % (kind, kernels, threads), obj.update, gen.L(case, traces[a:b]), gen.L(case, data[a:b], 2))
            res = must(case, '%s.compute (kernels %s, %d threads)' % (kind, kernels, threads), obj.compute)
            log = list(getattr(obj, '_verif_kernel_log', []))
            if kind == 'mia':
                out = {'result': np.array(res), 'accumulators': np.array(obj.accumulators)}
            elif kind == 'tbuild':
                out = {'templates': np.array(res), 'pooled_covariance': np.array(obj.pooled_covariance), 'counters': np.array(obj._counters), 'exi': np.array(obj._exi), 'exxi': np.array(obj._exxi)}
            else:
                out = {'result': np.array(res), 'sum': np.array(obj.sum), 'sum_square': np.array(obj.sum_square), 'counters': np.array(obj.counters)}
            return out, log
    finally:
        _set_threads(1)


def check_case(ctx, case):
    kind = case['dist']
    precision = case['precision']
    traces = case['traces']
    n = traces.shape[0]
    nb = len(_batches(case))
    exact = stats.is_integral(traces)
    uses_kernels = kind == 'tbuild' or (kind in ('anova', 'nicv', 'snr') and len(case['partitions']) <= 9)
    ref, log0 = _run(case, [0] * nb if uses_kernels else None, 1)
    if uses_kernels and log0 != [0] * nb:
        raise HarnessError('kernel hook did not force/log the reference sequence: %s' % log0)
    eps = float(np.finfo(precision).eps)
    tol_res = None
    if not exact and kind in ('anova', 'nicv', 'snr'):
        _, tol, _ = stats.partitioned(kind, traces, case['data'].reshape(n, -1), list(case['partitions']), eps)
        tol_res = tol * n * 2
    both = False
    runs = 0
    for kernels, threads in case['runs']:
        kernels = list(kernels)[:nb] if uses_kernels else None
        if kernels is not None and kernels == [0] * nb and threads == 1:
            continue
        out, log = _run(case, kernels, threads)
        runs += 1
        if uses_kernels:
            if log != kernels:
                raise HarnessError('kernel hook log %s != forced sequence %s' % (log, kernels))
            if len(set(kernels)) > 1 or (kernels and kernels[0] == 1):
                both = True
        what = '%s (%s): kernel sequence %s with %d thread(s) vs kernel 1 only with 1 thread' % (kind, precision, kernels if kernels is not None else 'n/a', threads)
        for key in ref:
            a, b = ref[key], out[key]
            if exact:
                if not dist.same(a, b):
                    d = np.abs(np.asarray(a, dtype='float64') - np.asarray(b, dtype='float64'))
                    raise Violation('%s: %s differs although every sum is exactly representable (max |diff| %s, %d entries)' % (
                        what, key, float(np.nanmax(d)) if d.size else 0.0, int(np.sum(~(np.asarray(a) == np.asarray(b)) & ~(np.isnan(np.asarray(a, dtype="float64")) & np.isnan(np.asarray(b, dtype="float64")))))), case)
            else:
                a64, b64 = np.asarray(a, dtype='float64'), np.asarray(b, dtype='float64')
                if a64.shape != b64.shape:
                    raise Violation('%s: %s has another shape' % (what, key), case)
                if key == 'result' and tol_res is not None:
                    t = tol_res
                    ok_cells = t <= 0.05 * np.maximum(np.abs(a64), 1e-30)
                elif key in ('counters', 'accumulators'):
                    t = np.zeros(a64.shape)
                    ok_cells = np.ones(a64.shape, dtype=bool)
                else:
                    # accumulators / templates / covariance: n roundings of terms bounded by max|x| (or its square)
                    mx = float(np.max(np.abs(traces.astype('float64')))) + 1.0
                    power = 2 if key in ('sum_square', 'sum_squared', 'exxi', 'pooled_covariance', 'var') else 1
                    t = np.full(a64.shape, 8 * eps * n * mx ** power * (n if key in ('pooled_covariance', 'var') else 1))
                    ok_cells = np.ones(a64.shape, dtype=bool)
                bad = ok_cells & ~((np.abs(a64 - b64) <= t) | (np.isnan(a64) & np.isnan(b64)))
                if bad.any():
                    idx = tuple(int(v) for v in np.argwhere(bad)[0])
                    raise Violation('%s: %s%s = %r vs %r, more than the rounding of the requested precision (tol %.3g)' % (what, key, list(idx), float(b64[idx]), float(a64[idx]), float(np.broadcast_to(t, a64.shape)[idx])), case)
    single_kernel_nontrivial = (not uses_kernels) and traces.shape[1] >= 8 and any(t > 1 for _, t in case['runs'])
    labels = ['kind:' + kind, 'prec:' + precision, 'tdtype:' + str(traces.dtype), 'regime:' + ('exact' if exact else 'rounded'), 'batches:%d' % nb,
              'nclasses:%d' % len(case['partitions']) if kind != 'ttest' else 'nclasses:n/a', 'samples:%s' % ('>4096' if traces.shape[1] > 4096 else '>=32' if traces.shape[1] >= 32 else '<32')]
    if both:
        labels.append('both_kernels')
    if not exact and np.dtype(traces.dtype).itemsize < np.dtype(precision).itemsize:
        labels.append('stored_narrower_than_precision')
    ctx.count('runs_compared', runs)
    ctx.case(case, both or single_kernel_nontrivial, labels)


def replay(ctx, case):
    check_case(ctx, case)


# ------------------------------------------------------------------------------------------------
@st.composite
def cases(draw, kind, precision, tdtypes, big=False):
    seed64 = draw(st.integers(0, 2 ** 63))
    g = np.random.Generator(np.random.PCG64(seed64))
    if big == 'long':
        # very long traces (sample counts around and above powers of two), few of them
        n = draw(st.integers(8, 40))
        s = draw(st.sampled_from([1025, 4096, 4097, 5000, 8193])) + draw(st.integers(0, 2))
        W = 1 if kind in ('tbuild', 'ttest') else draw(st.integers(1, 2))
    elif big == 'tall':
        # thousands of traces per batch with few classes: more than 1024 / 4096 traces of one class in a single batch
        n = draw(st.sampled_from([2100, 2500, 4100, 6000])) + draw(st.integers(0, 40))
        s = draw(st.integers(1, 3))
        W = 1
    elif big:
        n = draw(st.integers(150, 400))
        s = draw(st.sampled_from([16, 32, 64]))
        W = 1 if kind in ('tbuild', 'ttest') else draw(st.integers(1, 2))
    else:
        n = draw(st.one_of(st.integers(2, 16), st.integers(2, 80)))
        s = draw(st.integers(1, 6))
        W = 1 if kind in ('tbuild', 'ttest') else draw(st.integers(1, 3))
    k = draw(st.sampled_from([2, 3, 8, 9, 9, 10, 64] if kind in ('anova', 'nicv', 'snr') else [2, 3, 8, 9, 10]))
    if big == 'tall':
        k = draw(st.sampled_from([2, 2, 3]))
    parts = CLASS_LISTS[k]
    und = draw(st.booleans())
    pool = list(parts) + ([max(parts) + 1, max(parts) + 7] if und else [])
    lab = g.choice(pool, size=(n, W))
    tdt = draw(st.sampled_from(tdtypes))
    if np.dtype(tdt).kind in 'iu':
        info = np.iinfo(tdt)
        B = 30 if precision == 'float32' else 1000
        if big and precision == 'float32':
            B = 8
        lo, hi = max(-B, int(info.min)), min(B, int(info.max))
        tr = (g.integers(lo, hi + 1, size=(n, s))).astype(tdt)
    else:
        flavour = draw(st.sampled_from(['integral', 'normal', 'offset1e3', 'offset1e5']))
        if flavour == 'integral':
            B = (8 if big else 30) if precision == 'float32' else 1000
            tr = g.integers(-B, B + 1, size=(n, s)).astype(tdt)
        else:
            off = {'normal': 0.0, 'offset1e3': 1e3, 'offset1e5': 1e5}[flavour]
            if precision == 'float32' and off > 1e3:
                off = 1e3
            tr = (g.normal(size=(n, s)) + off + (lab[:, :1] % 5) * 0.5).astype(tdt)
    if draw(st.integers(0, 3)) == 0:
        # samples that are exactly zero for every trace (zero padding after an alignment, a masked area), the first sample included
        tr[:, 0] = 0
        if s > 2 and draw(st.booleans()):
            tr[:, s - 1] = 0
    b = draw(st.integers(1, 2 if big else 6))
    b = min(b, n)
    cuts = sorted(g.choice(np.arange(1, n), size=b - 1, replace=False).tolist()) if b > 1 else []
    uses_kernels = kind == 'tbuild' or (kind in ('anova', 'nicv', 'snr') and k <= 9)
    if uses_kernels:
        seqs = list(itertools.product([0, 1], repeat=b))
        if len(seqs) > 16:
            idx = sorted(g.choice(len(seqs), size=16, replace=False).tolist())
            seqs = [seqs[i] for i in idx]
        runs = [[list(sq), int(g.choice(THREADS))] for sq in seqs]
    else:
        runs = [[[], t] for t in ([2, 16] if not big else [2, 8, 16, 16])]
    if big == 'long':
        runs = runs[:5]
    elif big:
        runs = runs[:6] + [[r[0], 16] for r in runs[:3]]
    ddt = draw(st.sampled_from([d for d in gen.CLASS_DTYPES if int(lab.max()) <= np.iinfo(d).max]))
    if np.dtype(ddt).kind == 'i' and und:
        for _ in range(3):
            lab[int(g.integers(n)), int(g.integers(W))] = -int(g.choice([1, 2, 5, 100]))       # negative foreign values
    case = {'kind': 'kernels', 'dist': kind, 'precision': precision, 'partitions': parts, 'traces': tr, 'data': lab.astype(ddt), 'cuts': cuts, 'runs': runs}
    if kind == 'mia':
        lo_e = float(np.floor(float(tr.min())))
        hi_e = float(np.ceil(float(tr.max()))) + 1.0
        nb_e = draw(st.sampled_from([1, 4, 16]))
        case['edges'] = [lo_e + (hi_e - lo_e) * i / nb_e for i in range(nb_e + 1)]
        if not all(a < b_ for a, b_ in zip(case['edges'], case['edges'][1:])):
            case['edges'] = [lo_e, lo_e + 1.0]
    return case


def unit_generated(ctx, kinds, precision, tdtypes, n, big=False):
    for i, kind in enumerate(kinds):
        hyp.run(ctx, cases(kind, precision, tdtypes, big), check_case, n, shrink_budget=30 if ctx.tier == 'quick' else 200, seed_extra=i)


def units(tier):
    q = tier == 'quick'
    us = []
    groups = [('float32', ['uint8', 'float32']), ('float64', ['int16', 'float32']), ('float64', ['uint8', 'float64']), ('float32', ['int8', 'float32']),
              ('float64', ['int32', 'float32']), ('float64', ['uint16', 'float64'])]
    for precision, tdts in groups:
        us.append({'name': 'partitioned-%s-%s' % (precision, '+'.join(tdts)), 'fn': 'unit_generated', 'threads': 16, 'cost': 2,
                   'kwargs': {'kinds': ['anova', 'nicv', 'snr'], 'precision': precision, 'tdtypes': tdts, 'n': 40 if q else 500}})
    for precision, tdts in groups[:4]:
        us.append({'name': 'tbuild-%s-%s' % (precision, '+'.join(tdts)), 'fn': 'unit_generated', 'threads': 16, 'cost': 2,
                   'kwargs': {'kinds': ['tbuild'], 'precision': precision, 'tdtypes': tdts, 'n': 80 if q else 1000}})
    us.append({'name': 'mia-ttest-threads', 'fn': 'unit_generated', 'threads': 16, 'cost': 2,
               'kwargs': {'kinds': ['mia', 'ttest'], 'precision': 'float64', 'tdtypes': ['uint8', 'float32'], 'n': 60 if q else 600}})
    us.append({'name': 'mia-ttest-threads-f32', 'fn': 'unit_generated', 'threads': 16, 'cost': 2,
               'kwargs': {'kinds': ['mia', 'ttest'], 'precision': 'float32', 'tdtypes': ['int16', 'float32'], 'n': 60 if q else 600}})
    for precision, tdts in [('float64', ['int16', 'float32']), ('float32', ['uint8', 'float32'])]:
        us.append({'name': 'big-arrays-%s' % precision, 'fn': 'unit_generated', 'threads': 16, 'cost': 4,
                   'kwargs': {'kinds': ['tbuild', 'snr', 'mia', 'ttest'], 'precision': precision, 'tdtypes': tdts, 'n': 10 if q else 100, 'big': True}})
    for precision, tdts in [('float64', ['int16', 'float32']), ('float32', ['uint8', 'float32'])]:
        us.append({'name': 'tall-batches-%s' % precision, 'fn': 'unit_generated', 'threads': 16, 'cost': 2,
                   'kwargs': {'kinds': ['tbuild', 'snr'], 'precision': precision, 'tdtypes': tdts, 'n': 6 if q else 60, 'big': 'tall'}})
    for precision, tdts in [('float64', ['int16', 'float32']), ('float32', ['uint8', 'float32'])]:
        us.append({'name': 'long-traces-%s' % precision, 'fn': 'unit_generated', 'threads': 16, 'cost': 2,
                   'kwargs': {'kinds': ['anova', 'snr', 'mia', 'ttest'], 'precision': precision, 'tdtypes': tdts, 'n': 6 if q else 60, 'big': 'long'}})
    return us


def selftest():
    import os
    if os.environ.get('SCARED_VERIF') != '1':
        raise HarnessError('SCARED_VERIF=1 is required (kernel forcing hook)')
    from scared.distinguishers import partitioned
    if not getattr(partitioned, '_VERIF_HOOKS', False):
        raise HarnessError('the kernel-forcing hook is not present / not enabled in scared.distinguishers.partitioned')
    return stats.selftest()


# dimensions added after the fourth and fifth round of seeded changes (DESIGN.md 8.3, 8.4); part of the rule reported in the evidence
RULE += ' Added with the fourth and fifth round of seeded changes: first/last sample exactly zero for every trace; batches of 2 100..6 040 traces with 2-3 classes (template build, SNR) under every kernel sequence.'
