"""C18 — preprocesses compute their definition row by row without integer wrap-around."""
import cmath
import math
from fractions import Fraction

import numpy as np
from hypothesis import strategies as st
from hypothesis.extra import numpy as hnp

import scared
from scared import preprocesses as pp
from scared.preprocesses import high_order as ho
from vlib import gen, hyp
from vlib.core import Violation, must

PROP = 'C18'
LEVEL = 'exploration'
TECHNIQUE = 'Hypothesis-generated trace matrices of every integer/float dtype with forced extreme values x every frame/mode/distance configuration; oracle = documented pair lists built by nested loops with exact rational arithmetic, naive DFT sums for the time-frequency family, row-locality metamorphic relation'
RULE = ('cases = (preprocess family, configuration, trace matrix 1..5 x 2..10 of u8/i8/u16/i16/u32/i32/u64/i64/f32/f64 with dtype extremes forced); '
        'non-trivial = an extreme value takes part in a combined pair, or frame != all, or distance < frame length, or (first-order / time-frequency) more than one row; distinct = digest of the case.')
LEVEL_TEXT = ('Each preprocess is compared element by element with its documented definition evaluated exactly (Fractions) on the inputs as promoted to the output float type, so a wrapped '
              'integer or a truncated integer mean is a gross error; pair order and count follow the documented loops; row locality is checked by recomputing single rows. Exploration: inputs sampled.')
LEVEL_NOTE = 'trusted: numpy integer->float conversion (promotion may round 64-bit integers: that is promotion, not wrap-around), exact rational arithmetic, naive O(N^2) DFT'
ASSUMPTIONS = ['distance=d combines each point i with points i..i+d (d+1 points, cut at the frame end), as implemented and pinned by the repository tests',
               'Xcorr is the documented half-spectrum product inverted with numpy\'s default irfft length (N points for even N, N-1 for odd N): pinned by the repository tests',
               'ConcatFHT is the squared Hartley transform (paper and repository tests), although its docstring omits the square',
               'centered/standardized and mean=None variants are compared against the explicit batch mean/std (documented batch dependence)']

ALL_DTYPES = ['uint8', 'int8', 'uint16', 'int16', 'uint32', 'int32', 'uint64', 'int64', 'float32', 'float64']


def _fr(v):
    return Fraction(int(v)) if isinstance(v, (int, np.integer)) else Fraction(float(v))


def _expected_dtype(tdtype, precision):
    return np.result_type(tdtype, precision)


def _arg(case, traces):
    """what the caller passes: the case's values in some memory layout and, for multi-byte samples, sometimes in non-native byte order
    (data read or memory-mapped from a big-endian file); both derived from the case digest"""
    from vlib.core import digest
    a = gen.L(case, traces)
    if a.dtype.itemsize > 1 and digest(case)[7] % 4 == 0:
        a = a.astype(a.dtype.newbyteorder('>'))
    return a


def _frame_positions(frame, L):
    if frame is None or frame is Ellipsis:
        return list(range(L))
    if isinstance(frame, slice):
        return list(range(L))[frame]
    if isinstance(frame, int):
        return [frame % L]
    return [int(i) % L for i in frame]           # lists / arrays / ranges: numpy fancy indexing, negative indices count from the end


def _pairs(cfg, L):
    f1 = _frame_positions(cfg['frame_1'], L)
    if cfg.get('distance') is not None:
        d = cfg['distance']
        return [(f1[i], f1[j]) for i in range(len(f1)) for j in range(i, min(i + d + 1, len(f1)))]
    if cfg.get('mode') == 'same':
        f2 = _frame_positions(cfg['frame_2'], L)
        return list(zip(f1, f2))
    if cfg.get('frame_2') is None:
        return [(f1[i], f1[j]) for i in range(len(f1)) for j in range(i, len(f1))]
    f2 = _frame_positions(cfg['frame_2'], L)
    return [(a, b) for a in f1 for b in f2]


def _is_extreme(v, dt):
    dt = np.dtype(dt)
    if dt.kind in 'iu':
        info = np.iinfo(dt)
        return int(v) in (info.min, info.max) and int(v) != 0
    return abs(float(v)) >= 1e6


def _prime(case, op, p, traces):
    """the same preprocess object is first used on other traces (longer ones when the configuration allows): no state may leak into the next call"""
    other = np.ascontiguousarray(traces[::-1])
    try:
        p(np.concatenate([other, other[:, :3]], axis=1))
    except Exception:      # configuration tied to the trace length (given mean vector, explicit frames): use traces of the same length
        must(case, '%s priming call on other traces of the same length' % op, p, other)


def _hold(p, traces):
    """the caller keeps the result while the same object processes another batch of the same shape and dtype: the kept result must not change"""
    try:
        p(np.ascontiguousarray(np.roll(traces, 1, axis=1)[::-1]))
    except Exception:
        pass


def check_combination(ctx, case):
    op, cfg, traces, prec = case['op'], case['cfg'], case['traces'], case['precision']
    t0 = traces.copy()
    kw = {k: v for k, v in cfg.items() if v is not None and k != 'mean'}
    kw['precision'] = prec
    klass = {'product': ho.Product, 'difference': ho.Difference, 'absdiff': ho.AbsoluteDifference, 'centered': ho.CenteredProduct}[op]
    mean = cfg.get('mean')
    if op == 'centered' and mean is not None:
        kw['mean'] = mean
    p = must(case, 'constructing %s(%s)' % (op, sorted(kw)), klass, **kw)
    if case.get('sibling_op'):
        # another combination preprocess (other operator, same kind of configuration) is created after the one under test and before it is used
        kw2 = {k: v for k, v in kw.items() if k != 'mean'}
        must(case, 'constructing a sibling %s(%s)' % (case['sibling_op'], sorted(kw2)),
             {'product': ho.Product, 'difference': ho.Difference, 'absdiff': ho.AbsoluteDifference, 'centered': ho.CenteredProduct}[case['sibling_op']], **kw2)
    if traces.shape[0] > 1:
        _prime(case, op, p, traces)
    out = must(case, '%s on %s%s' % (op, traces.dtype, traces.shape), p, _arg(case, traces))
    _hold(p, traces)
    n, L = traces.shape
    pairs = _pairs(cfg, L)
    odt = _expected_dtype(traces.dtype, prec)
    if op == 'centered' and mean is not None:
        odt = np.result_type(odt, mean.dtype)
    if not isinstance(out, np.ndarray) or out.shape != (n, len(pairs)):
        raise Violation('%s: result shape %s, expected (%d traces, %d documented pairs)' % (op, np.shape(out), n, len(pairs)), case)
    if out.dtype.kind != 'f' or out.dtype.itemsize < np.dtype(prec).itemsize:
        raise Violation('%s: result dtype %s is not a floating type of at least the requested precision %s' % (op, out.dtype, prec), case)
    eps = float(np.finfo(out.dtype).eps)
    conv = traces.astype(odt)        # numpy promotion of the inputs (exact for <=32-bit ints in float64, <=16-bit in float32)
    cm = None
    if op == 'centered':
        if mean is None:
            cm = [sum(_fr(v) for v in conv[:, c]) / n for c in range(L)]
        else:
            mm = np.broadcast_to(mean, (L,))
            cm = [_fr(v) for v in mm]
    extreme_used = False
    colmax = [max(abs(float(v)) for v in conv[:, c]) for c in range(L)]
    for r in range(n):
        for k, (a, b) in enumerate(pairs):
            xa, xb = _fr(conv[r, a]), _fr(conv[r, b])
            if op == 'product':
                e = xa * xb
                tol = 4 * eps * abs(float(e))
            elif op == 'difference':
                e = xa - xb
                tol = 4 * eps * abs(float(e))
            elif op == 'absdiff':
                e = abs(xa - xb)
                tol = 4 * eps * abs(float(e))
            else:
                e = (xa - cm[a]) * (xb - cm[b])
                if mean is None:   # the batch mean is a floating-point sum: its error scales with the largest value of the column
                    scale = (colmax[a] + abs(float(cm[a]))) * (colmax[b] + abs(float(cm[b])))
                else:
                    scale = (abs(float(xa)) + abs(float(cm[a]))) * (abs(float(xb)) + abs(float(cm[b])))
                tol = (8 + (4 * n if mean is None else 0)) * eps * scale
            got = float(out[r, k])
            if not (abs(got - float(e)) <= tol + 1e-300):
                raise Violation('%s %s: trace %d, pair #%d = samples (%d, %d) with values (%r, %r): got %r, definition gives %r' % (
                    op, {k_: v for k_, v in cfg.items() if k_ != 'mean'}, r, k, a, b, traces[r, a].item(), traces[r, b].item(), got, float(e)), case)
            extreme_used = extreme_used or _is_extreme(traces[r, a], traces.dtype) or _is_extreme(traces[r, b], traces.dtype)
    # row locality (not for the batch-mean variant)
    if not (op == 'centered' and mean is None):
        for r in range(n):
            single = must(case, '%s on a single row' % op, p, traces[r:r + 1])
            if not np.array_equal(single[0], out[r], equal_nan=True):
                raise Violation('%s: row %d of the output changes when the other rows are removed' % (op, r), case)
    if not np.array_equal(traces, t0):
        raise Violation('%s modified its input' % op, case)
    full = cfg['frame_1'] is None or cfg['frame_1'] is Ellipsis
    nontrivial = extreme_used or not full or (cfg.get('distance') is not None and cfg['distance'] < L - 1)
    ctx.case(case, nontrivial, ['comb:' + op, 'dtype:' + str(traces.dtype), 'prec:' + prec,
                                'cfg:' + ('distance' if cfg.get('distance') is not None else 'same' if cfg.get('mode') == 'same' else 'two-frames' if cfg.get('frame_2') is not None else 'one-frame'),
                                'extreme_in_pair' if extreme_used else 'no_extreme'])


# ------------------------------------------------------------------------------------------------
def check_first_order(ctx, case):
    op, traces = case['op'], case['traces']
    t0 = traces.copy()
    n, L = traces.shape
    prec = case.get('precision', 'float32')
    import warnings
    with warnings.catch_warnings():
        warnings.simplefilter('ignore')
        if op == 'square':
            f = pp.square
        elif op == 'center':
            f = pp.center
        elif op == 'standardize':
            f = pp.standardize
        elif op == 'serialize_bit':
            f = pp.serialize_bit
        elif op == 'fft_modulus':
            f = pp.fft_modulus
        elif op == 'topower':
            f = pp.ToPower(case['power'], precision=prec)
        elif op == 'centeron':
            f = pp.CenterOn(mean=case['mean'], precision=prec)
        elif op == 'standardizeon':
            f = pp.StandardizeOn(mean=case['mean'], std=case['std'], precision=prec)
        else:
            raise ValueError(op)
        out = must(case, '%s on %s%s' % (op, traces.dtype, traces.shape), f, _arg(case, traces))
    if not isinstance(out, np.ndarray) or out.ndim != 2 or out.shape[0] != n:
        raise Violation('%s: result is not a 2-D array with one row per trace' % op, case)
    batch_dep = op in ('center', 'standardize') or (op == 'centeron' and case['mean'] is None) or (op == 'standardizeon' and (case['mean'] is None or case['std'] is None))
    if op == 'serialize_bit':
        exp = [[(int(v) % 256 >> (7 - b)) & 1 for v in row for b in range(8)] for row in traces]
        if out.shape != (n, 8 * L) or out.tolist() != exp:
            raise Violation('serialize_bit: bits differ from the MSB-first bits of each byte', case)
    elif op == 'fft_modulus':
        m = math.ceil(L / 2)
        if out.shape != (n, m):
            raise Violation('fft_modulus: shape %s, expected (%d, %d)' % (out.shape, n, m), case)
        eps = float(np.finfo(out.dtype).eps)
        for r in range(n):
            xs = [float(v) for v in traces[r]]
            s1 = sum(abs(v) for v in xs)
            for k in range(m):
                e = abs(sum(x * cmath.exp(-2j * math.pi * k * t / L) for t, x in enumerate(xs)))
                if not abs(float(out[r, k]) - e) <= 16 * eps * L * s1 + 1e-300:
                    raise Violation('fft_modulus: trace %d bin %d: got %r, |DFT| is %r' % (r, k, float(out[r, k]), e), case)
    else:
        if out.shape != (n, L):
            raise Violation('%s: shape %s, expected %s' % (op, out.shape, (n, L)), case)
        if out.dtype.kind != 'f' or out.dtype.itemsize < (4 if op in ('square', 'center', 'standardize') else np.dtype(prec).itemsize):
            raise Violation('%s: result dtype %s is not a floating type of at least the requested precision' % (op, out.dtype), case)
        eps = float(np.finfo(out.dtype).eps)
        odt = np.result_type(traces.dtype, 'float32' if op in ('square', 'center', 'standardize') else prec)
        conv = traces.astype(odt)
        X = [[_fr(v) for v in row] for row in conv]
        # batch mean/std are computed in the requested precision (result_type(traces, precision)), whatever the dtype of the final array
        eps_b = max(eps, float(np.finfo(odt).eps))
        if op in ('centeron', 'standardizeon') and case.get('mean') is not None:
            # the subtraction is carried out in the promoted type of its operands (e.g. float32 traces - float32 mean), even if a float64 std widens the result later
            sub_dt = np.result_type(traces.dtype if op == 'standardizeon' else odt, np.asarray(case['mean']).dtype if not isinstance(case['mean'], int) else odt)
            if sub_dt.kind == 'f':
                eps = max(eps, float(np.finfo(sub_dt).eps))
                eps_b = max(eps_b, eps)
        colmax = [max(abs(float(v)) for v in conv[:, c]) for c in range(L)]
        if op in ('center', 'standardize') or batch_dep:
            bm = [sum(X[r][c] for r in range(n)) / n for c in range(L)]
            bv = [sum((X[r][c] - bm[c]) ** 2 for r in range(n)) / n for c in range(L)]
        for r in range(n):
            for c in range(L):
                x = X[r][c]
                if op == 'square':
                    e, tol = x * x, 4 * eps * float(x * x)
                elif op == 'topower':
                    e = x ** case['power']
                    tol = 4 * case['power'] * eps * abs(float(e))
                elif op in ('center', 'centeron'):
                    mval = bm[c] if (op == 'center' or case['mean'] is None) else _fr(np.broadcast_to(case['mean'], (L,))[c])
                    e = x - mval
                    tol = (4 + (2 * n if batch_dep else 0)) * (eps_b if batch_dep else eps) * ((colmax[c] if batch_dep else abs(float(x))) + abs(float(mval)))
                else:  # standardize / standardizeon
                    use_bm = op == 'standardize' or case['mean'] is None
                    use_bs = op == 'standardize' or case['std'] is None
                    mval = bm[c] if use_bm else _fr(np.broadcast_to(case['mean'], (L,))[c])
                    sval = math.sqrt(float(bv[c])) if use_bs else float(np.broadcast_to(case['std'], (L,))[c])
                    if sval == 0 or (use_bs and float(bv[c]) <= 64 * n * eps * float(sum(X[r_][c] ** 2 for r_ in range(n)) / n)):
                        ctx.count('skipped_zero_or_tiny_std_column')
                        continue
                    e = float(x - mval) / sval
                    kappa = ((colmax[c] if (use_bm or use_bs) else abs(float(x))) + abs(float(mval))) / abs(sval)
                    # numpy's nanstd squares the deviations in the storage type of float32 input even when dtype=float64 is requested
                    eps_s = max(eps_b, float(np.finfo('float32').eps)) if (use_bs and traces.dtype == np.float32) else (eps_b if (use_bm or use_bs) else eps)
                    tol = (8 + 4 * n) * eps_s * (kappa + abs(e)) * (1 + (float(sum(X[r_][c] ** 2 for r_ in range(n)) / n) / float(bv[c]) if use_bs else 0))
                got = float(out[r, c])
                if not abs(got - float(e)) <= tol + 1e-300:
                    raise Violation('%s: trace %d sample %d (value %r): got %r, definition gives %r (tol %.3g)' % (op, r, c, traces[r, c].item(), got, float(e), tol), case)
    if not batch_dep:
        for r in range(n):
            single = must(case, '%s on a single row' % op, f, traces[r:r + 1])
            same = np.array_equal(single[0], out[r], equal_nan=True) if op != 'fft_modulus' else np.allclose(single[0], out[r], rtol=1e-5, atol=1e-5)
            if not same:
                raise Violation('%s: row %d of the output changes when the other rows are removed' % (op, r), case)
    if not np.array_equal(traces, t0):
        raise Violation('%s modified its input' % op, case)
    ext = any(_is_extreme(v, traces.dtype) for v in traces.reshape(-1))
    ctx.case(case, ext or n > 1, ['first:' + op, 'dtype:' + str(traces.dtype), 'extreme' if ext else 'no_extreme'] + (['integer_typed_mean'] if op == 'centeron' and case.get('mean') is not None and (isinstance(case['mean'], int) or np.asarray(case['mean']).dtype.kind in 'iu') else []))


# ------------------------------------------------------------------------------------------------
def _rfft(xs):
    n = len(xs)
    return [sum(x * cmath.exp(-2j * math.pi * k * t / n) for t, x in enumerate(xs)) for k in range(n // 2 + 1)]


def _irfft_default(X):
    m = len(X)
    N = 2 * (m - 1)
    out = []
    for t in range(N):
        s = X[0].real
        for k in range(1, m - 1):
            s += 2 * (X[k] * cmath.exp(2j * math.pi * k * t / N)).real
        s += (X[m - 1].real) * math.cos(math.pi * t)
        out.append(s / N)
    return out


def check_timefreq(ctx, case):
    op, traces, mode = case['op'], case['traces'], case['mode']
    f1, f2 = case['frame_1'], case['frame_2']
    klass = getattr(ho, op)
    kw = {}
    if f1 is not None:
        kw['frame_1'] = f1
    if f2 is not None:
        kw['frame_2'] = f2
    if mode is not None:
        kw['mode'] = mode
    import warnings
    with warnings.catch_warnings():
        warnings.simplefilter('ignore')
        p = must(case, 'constructing %s(%s)' % (op, sorted(kw)), klass, **kw)
        if traces.shape[0] > 1:
            _prime(case, op, p, traces)
        out = must(case, '%s on %s%s' % (op, traces.dtype, traces.shape), p, _arg(case, traces))
        _hold(p, traces)
    n, L = traces.shape
    g1 = f1 if f1 is not None else f2
    g2 = f2 if f2 is not None else f1
    p1, p2 = _frame_positions(g1, L), _frame_positions(g2, L)
    T = traces.astype('float64')

    def prep(cols):
        sub = T[:, cols]
        if mode == 'centered':
            return sub - sub.mean(axis=0)
        if mode == 'standardized':
            sd = sub.std(axis=0)
            return (sub - sub.mean(axis=0)) / sd
        return sub
    with np.errstate(all='ignore'):
        a, b = prep(p1), prep(p2)
    if not (np.all(np.isfinite(a)) and np.all(np.isfinite(b))):
        ctx.count('skipped_zero_std_column')
        return
    if mode == 'standardized':
        sd = np.concatenate([T[:, p1].std(axis=0), T[:, p2].std(axis=0)])
        if np.any(sd < 1e-3 * (np.abs(T).max() + 1)):
            ctx.count('skipped_tiny_std_column')
            return
    perts = []
    eps = float(np.finfo(out.dtype).eps) if out.dtype.kind == 'f' else 2.0 ** -52
    if traces.dtype == np.float32 or mode in ('centered', 'standardized') and np.result_type(traces.dtype, 'float32') == np.float32:
        eps = max(eps, float(np.finfo('float32').eps))
    # centring / standardising happens in the working precision: every centred value carries an ABSOLUTE error of the order of
    # eps x the magnitude of the raw column (cancellation when the mean is large compared with the deviations), divided by the column's std when standardised
    def _delta(cols):
        if not mode:
            return np.zeros(len(cols))
        raw = np.abs(T[:, cols]).max(axis=0)
        d = 8 * n * eps * raw
        return d / T[:, cols].std(axis=0) if mode == 'standardized' else d
    with np.errstate(all='ignore'):
        da, db = _delta(p1), _delta(p2)
    exp_rows = []
    for r in range(n):
        x1, x2 = [float(v) for v in a[r]], [float(v) for v in b[r]]
        s1, s2 = sum(abs(v) for v in x1), sum(abs(v) for v in x2)
        s1p, s2p = s1 + float(da.sum()), s2 + float(db.sum())
        if op in ('Xcorr', 'WindowFFT', 'WindowFHT'):
            pert = s1p * s2p - s1 * s2
        elif op == 'MaxCorr':
            pert = (s1p + s2p) - (s1 + s2)
        else:
            pert = 2 * ((s1p + s2p) ** 2 - (s1 + s2) ** 2)
        perts.append(pert)
        if op in ('Xcorr', 'WindowFFT', 'WindowFHT'):
            F1, F2 = _rfft(x1), _rfft(x2)
            if op == 'Xcorr':
                row = _irfft_default([u.conjugate() * v for u, v in zip(F1, F2)])
            elif op == 'WindowFFT':
                row = [abs(u.conjugate() * v) for u, v in zip(F1, F2)]
            else:
                row = [(u.real - u.imag) * (v.real - v.imag) for u, v in zip(F1, F2)]
            scale = sum(abs(v) for v in x1) * sum(abs(v) for v in x2)
        else:
            F = _rfft(x1 + x2)
            if op == 'MaxCorr':
                row = [u.real for u in F] + [u.imag for u in F] + [abs(u) for u in F]
                scale = sum(abs(v) for v in x1 + x2)
            elif op == 'ConcatFFT':
                row = [abs(u) ** 2 for u in F]
                scale = sum(abs(v) for v in x1 + x2) ** 2
            else:
                row = [(u.real - u.imag) ** 2 for u in F]
                scale = 2 * sum(abs(v) for v in x1 + x2) ** 2
        exp_rows.append((row, scale))
    width = len(exp_rows[0][0])
    if out.shape != (n, width):
        raise Violation('%s: result shape %s, expected (%d, %d)' % (op, out.shape, n, width), case)
    nn = len(p1) + len(p2)
    factor = 64 * nn * (4 * n if mode else 1)
    for r, (row, scale) in enumerate(exp_rows):
        for k, e in enumerate(row):
            if not abs(float(out[r, k]) - e) <= factor * eps * (scale + 1e-300) + 4 * perts[r] + 1e-300:
                raise Violation('%s(mode=%s): trace %d output %d: got %r, formula gives %r' % (op, mode, r, k, float(out[r, k]), e), case)
    if op == 'Xcorr' and len(p1) % 2 == 0 and not mode:
        # direct circular cross-correlation for even lengths
        N = len(p1)
        for r in range(n):
            x1, x2 = a[r], b[r]
            for t in range(N):
                e = sum(x1[u] * x2[(u + t) % N] for u in range(N))
                if not abs(float(out[r, t]) - e) <= factor * eps * exp_rows[r][1] + 1e-300:
                    raise Violation('Xcorr: trace %d lag %d: got %r, circular cross-correlation is %r' % (r, t, float(out[r, t]), e), case)
    if not mode:
        for r in range(n):
            single = must(case, '%s on a single row' % op, p, traces[r:r + 1])
            if not np.allclose(single[0], out[r], rtol=64 * eps, atol=factor * eps * exp_rows[r][1]):
                raise Violation('%s: row %d of the output changes when the other rows are removed' % (op, r), case)
    ctx.case(case, n > 1 or f1 is not None or f2 is not None, ['tf:' + op, 'mode:%s' % mode, 'len:%s' % ('even' if len(p1) % 2 == 0 else 'odd'), 'dtype:' + str(traces.dtype)])


CHECKS = {'comb': check_combination, 'first': check_first_order, 'tf': check_timefreq}


def replay(ctx, case):
    CHECKS[case['kind']](ctx, case)


# ------------------------------------------------------------------------------------------------
def _elements(dt, magnitude):
    dt = np.dtype(dt)
    if dt.kind in 'iu':
        info = np.iinfo(dt)
        ext = [info.min, info.max, info.max - 1, 0, 1] + ([info.min + 1, -1] if info.min < 0 else [])
        if dt.itemsize == 4:
            ext += [50000, 60000, 65536, 46341] + ([-50000] if info.min < 0 else [])
        return st.one_of(st.sampled_from(ext), st.integers(max(info.min, -magnitude), min(info.max, magnitude)))
    return st.one_of(st.integers(-magnitude, magnitude).map(float), st.integers(-64, 64).map(lambda k: k / 8.0),
                     st.sampled_from([1e6, -1e6, 3e7] if dt.itemsize == 4 else [1e6, -1e6, 1e12]))


@st.composite
def trace_matrix(draw, min_cols=2, max_cols=10, dtypes=ALL_DTYPES, magnitude=300):
    dt = draw(st.sampled_from(dtypes))
    n = draw(st.integers(1, 5))
    L = draw(st.integers(min_cols, max_cols))
    return draw(hnp.arrays(dt, (n, L), elements=_elements(dt, magnitude)))


@st.composite
def frames(draw, L, allow_none=True, min_len=1):
    kind = draw(st.sampled_from((['none'] if allow_none else []) + ['slice', 'list', 'int', 'range', 'ndarray']))
    if kind == 'none':
        return None
    if kind == 'int' and min_len <= 1:
        return draw(st.integers(0, L - 1))
    if kind == 'range' and min_len <= 1 and draw(st.integers(0, 3)) == 0:
        # ranges that cross zero or run downwards: range(-3, 0) = the last three samples, range(3, -1, -1) = samples 3, 2, 1, 0
        style = draw(st.sampled_from(['tail', 'down', 'down_to_zero', 'cross']))
        k = draw(st.integers(1, min(L, 4)))
        if style == 'tail':
            return range(-k, 0)
        if style == 'down':
            hi = draw(st.integers(k, L - 1)) if L - 1 >= k else L - 1
            return range(hi, max(hi - k, 0), -1) if hi - k >= 0 else range(hi, -1, -1)
        if style == 'down_to_zero':
            return range(min(k, L - 1), -1, -1)
        return range(-min(k, L), min(2, L))          # e.g. range(-2, 2): last two samples then the first two
    if kind in ('list', 'ndarray') and draw(st.integers(0, 3)) == 0:
        lst = draw(st.lists(st.integers(-L, L - 1), min_size=min_len, max_size=max(min_len, min(L, 6))))
        return lst if kind != 'ndarray' else np.array(lst, dtype='int64')
    if kind in ('slice', 'range'):
        a = draw(st.integers(0, L - min_len))
        step = draw(st.sampled_from([1, 1, 2, 3]))
        b = draw(st.integers(min(a + (min_len - 1) * step + 1, L), L))
        if len(range(a, b, step)) < min_len:
            step = 1
        return slice(a, b, step if draw(st.booleans()) else (None if step == 1 else step)) if kind == 'slice' else range(a, b, step)
    lst = draw(st.lists(st.integers(0, L - 1), min_size=min_len, max_size=max(min_len, min(L, 6))))
    return lst if kind != 'ndarray' else np.array(lst, dtype='int64')


@st.composite
def comb_cases(draw):
    op = draw(st.sampled_from(['product', 'difference', 'absdiff', 'centered']))
    traces = draw(trace_matrix())
    n, L = traces.shape
    prec = draw(st.sampled_from(['float32', 'float32', 'float64']))
    which = draw(st.sampled_from(['one', 'one', 'two', 'same', 'distance']))
    cfg = {'frame_1': None, 'frame_2': None, 'mode': None, 'distance': None}
    if which == 'one':
        cfg['frame_1'] = draw(frames(L))
        if cfg['frame_1'] is None and draw(st.booleans()):
            cfg['frame_1'] = Ellipsis
    elif which == 'two':
        cfg['frame_1'] = draw(frames(L, allow_none=False))
        cfg['frame_2'] = draw(frames(L, allow_none=False))
        if draw(st.integers(0, 2)) == 0:
            # frame_2 given explicitly and naming the same samples as frame_1 (the documented result is still the full frame_1 x frame_2 product)
            f1 = cfg['frame_1']
            cfg['frame_2'] = (list(_frame_positions(f1, L)) if draw(st.booleans()) else (list(f1) if isinstance(f1, list) else f1))
    elif which == 'same':
        k = draw(st.integers(1, min(L, 5)))
        cfg['frame_1'] = draw(st.lists(st.integers(0, L - 1), min_size=k, max_size=k))
        cfg['frame_2'] = list(draw(st.permutations(cfg['frame_1']))) if draw(st.booleans()) else draw(st.lists(st.integers(0, L - 1), min_size=k, max_size=k))
        cfg['mode'] = 'same'
    else:
        cfg['frame_1'] = draw(frames(L))
        if cfg['frame_1'] is None and draw(st.booleans()):
            cfg['frame_1'] = Ellipsis
        cfg['distance'] = draw(st.integers(1, L + 1))
    if which != 'same' and draw(st.integers(0, 3)) == 0:
        cfg['mode'] = 'full'
    if op == 'centered':
        mk = draw(st.sampled_from(['none', 'vector', 'vector']))
        if mk == 'vector':
            cfg['mean'] = draw(hnp.arrays(draw(st.sampled_from(['float32', 'float64'])), (L,), elements=st.integers(-1024, 1024).map(lambda k: k / 4.0)))
        else:
            cfg['mean'] = None
    return {'kind': 'comb', 'op': op, 'cfg': cfg, 'traces': traces, 'precision': prec,
            'sibling_op': draw(st.sampled_from([None, None, 'product', 'difference', 'absdiff', 'centered']))}


@st.composite
def first_cases(draw):
    op = draw(st.sampled_from(['square', 'center', 'standardize', 'serialize_bit', 'fft_modulus', 'topower', 'centeron', 'standardizeon']))
    if op == 'serialize_bit':
        traces = draw(trace_matrix(min_cols=1, max_cols=5, dtypes=['uint8', 'uint8', 'uint16', 'int32', 'int64'], magnitude=255))
        traces = (traces.astype('int64') % 256).astype(traces.dtype) if traces.dtype != np.uint8 else traces
        return {'kind': 'first', 'op': op, 'traces': traces}
    if op == 'fft_modulus':
        return {'kind': 'first', 'op': op, 'traces': draw(trace_matrix(min_cols=1, max_cols=9, dtypes=['uint8', 'int16', 'int32', 'float32', 'float64'], magnitude=200))}
    if op == 'topower':
        dts = ['uint8', 'int8', 'uint16', 'int16', 'uint32', 'int32', 'float32', 'float64']
        return {'kind': 'first', 'op': op, 'traces': draw(trace_matrix(dtypes=dts, magnitude=100)), 'power': draw(st.integers(1, 3)),
                'precision': draw(st.sampled_from(['float32', 'float64']))}
    traces = draw(trace_matrix(min_cols=1, max_cols=6))
    case = {'kind': 'first', 'op': op, 'traces': traces, 'precision': draw(st.sampled_from(['float32', 'float64']))}
    L = traces.shape[1]
    if op in ('centeron', 'standardizeon'):
        mdt = draw(st.sampled_from(['float32', 'float64']))
        case['mean'] = draw(st.one_of(st.none(), hnp.arrays(mdt, (L,), elements=st.integers(-1024, 1024).map(lambda k: k / 4.0))))
        if op == 'centeron' and draw(st.integers(0, 2)) == 0:
            # a mean given in an integer type: a raw reference trace of the same (or a narrower) integer type as the traces, an int64 array,
            # or a plain Python integer for every sample
            mk = draw(st.sampled_from(['same', 'same', 'uint8', 'int8', 'int64', 'pyint']))
            if mk == 'pyint':
                case['mean'] = draw(st.sampled_from([128, 100, 1, 255, 1000]))
            else:
                idt = str(traces.dtype) if (mk == 'same' and traces.dtype.kind in 'iu') else ('int64' if mk == 'same' else mk)
                info = np.iinfo(idt)
                case['mean'] = draw(hnp.arrays(idt, (L,), elements=st.integers(max(int(info.min), -1024), min(int(info.max), 1024))))
    if op == 'standardizeon':
        case['std'] = draw(st.one_of(st.none(), hnp.arrays('float64', (L,), elements=st.sampled_from([0.5, 1.0, 2.0, 4.0, 3.0, 0.25]))))
    return case


@st.composite
def tf_cases(draw):
    op = draw(st.sampled_from(['Xcorr', 'WindowFFT', 'WindowFHT', 'MaxCorr', 'ConcatFFT', 'ConcatFHT']))
    traces = draw(trace_matrix(min_cols=2, max_cols=9, dtypes=['uint8', 'int8', 'int16', 'int32', 'float32', 'float64'], magnitude=100))
    n, L = traces.shape
    mode = draw(st.sampled_from([None, None, 'raw', 'centered', 'standardized']))
    same_len = op in ('Xcorr', 'WindowFFT', 'WindowFHT')
    which = draw(st.sampled_from(['none', 'f1', 'f2', 'both']))
    f1 = f2 = None
    if which in ('f1', 'both'):
        f1 = draw(frames(L, allow_none=False, min_len=2))
        if isinstance(f1, int):
            f1 = [f1, (f1 + 1) % L]
    if which in ('f2', 'both'):
        if same_len and f1 is not None:
            k = len(_frame_positions(f1, L))
            f2 = draw(st.lists(st.integers(0, L - 1), min_size=k, max_size=k))
        else:
            f2 = draw(frames(L, allow_none=False, min_len=2))
            if isinstance(f2, int):
                f2 = [f2, (f2 + 1) % L]
    return {'kind': 'tf', 'op': op, 'traces': traces, 'mode': mode, 'frame_1': f1, 'frame_2': f2}


STRATS = {'comb': comb_cases, 'first': first_cases, 'tf': tf_cases}


def unit_generated(ctx, which, n):
    hyp.run(ctx, STRATS[which](), CHECKS[which], n)


def units(tier):
    q = tier == 'quick'
    us = []
    for which, n, k in (('comb', 500, 6), ('first', 500, 3), ('tf', 300, 3)):
        for i in range(k):
            us.append({'name': 'gen-%s-%d' % (which, i), 'fn': 'unit_generated', 'kwargs': {'which': which, 'n': n if q else n * 50}})
    return us


# dimensions added after the fourth and fifth round of seeded changes (DESIGN.md 8.3, 8.4); part of the rule reported in the evidence
RULE += ' Added with the fourth and fifth round of seeded changes: integer-typed means for CenterOn (same / narrower integer arrays, int64, Python int); explicit frame_2 naming the same samples as frame_1; a sibling combination preprocess of another operator created before use.'
