"""C14 — templates are class means with pooled covariance; matching is Mahalanobis (TemplateAttack / TemplateDPAAttack through the public pipeline)."""
import logging
import warnings

import numpy as np
from hypothesis import strategies as st

import scared
from vlib import dist, gen, hyp
from vlib.core import Violation, must
from vlib.oracles import stats

PROP = 'C14'
LEVEL = 'exploration'
TECHNIQUE = ('Hypothesis-generated histories (optional refused run before build, build, 1-2 matching runs) of TemplateAttack and TemplateDPAAttack through Container / selection function / model, '
             'with generated class lists, unbalanced building sets, batch sizes and precisions; oracle = two-pass class means, mean of per-class numpy.cov(ddof=1), Mahalanobis scores with numpy pinv')
RULE = ('case = (attack in static|dpa, precision, class list of 2..9 values from a pool of 10 fixed + 8 per-unit generated lists (transpositions and permutations of 0..k-1, gapped values), building set with 2..8 traces per class (+ optional undeclared values), trace length 1..6, '
        'container batch size, 1..2 matching sets of 1..30 traces, guesses 2..5, optional run() before build()). Non-trivial = unbalanced classes and (several batches in build or matching, or two matching runs); '
        'distinct = digest of the case.')
LEVEL_TEXT = ('templates, pooled covariance and its pseudo-inverse are compared with independently computed class means / averaged unbiased covariances, and the scores with 10 - mean squared Mahalanobis distance '
              'computed (a) from the exposed templates and covariance and (b) from the oracle\'s own; the best candidate must agree when the lead exceeds the tolerance. Exploration over sampled sets and histories.')
LEVEL_NOTE = 'trusted: numpy.cov / numpy.linalg.pinv in float64 as reference linear algebra'
ASSUMPTIONS = [
    'every populated class has at least 2 building traces (the unbiased covariance of the statement is undefined otherwise); declared classes WITHOUT any building trace are generated: they count in the average over declared classes and contribute no scatter (literal reading of the statement; their template rows are not asserted)',
    'pooled covariances with condition number > 1e4 (duplicated / constant samples, fewer degrees of freedom than samples are generated on purpose): pooled_covariance_inv must still be numpy.linalg.pinv of the exposed covariance and the scores must follow from the exposed profile; the comparison with the oracle\'s own covariance is skipped there',
    'tolerances: covariance 64 eps (max|x|^2+1) (x n for real-valued traces); scores: first-order propagation through the pseudo-inverse (cond x relative covariance error)',
]

POOL = [[0, 1], [0, 1, 2], [2, 0, 1], [0, 1, 2, 3], [3, 1, 0, 2], [0, 2, 5], [7, 3], [0, 1, 2, 3, 4, 5, 6, 7, 8], [4, 260, 17], [5, 1, 9, 300, 2],
        [-2, -1, 0, 1, 2], [-4, -3, -2, -1, 0], [1, -1, 0], [-300, 5, -7]]         # signed intermediate values (e.g. a centred Hamming weight): classes may be negative


def _mk_attack(case, build_traces, build_lab):
    P = [int(v) for v in case['partitions']]            # populated classes
    PA = _declared(case)                                 # declared classes (populated ones plus classes without any building trace)
    k = len(P)
    G = int(case['guesses'])

    @scared.reverse_selection_function
    def rsf(lab):
        return lab

    parr = np.array(P, dtype='int32')

    @scared.attack_selection_function(words=0, guesses=range(G))
    def asf(pt, guesses):
        # hypothesis for guess g: class value P[(pt + g) % k]
        idx = (pt.astype('int64')[:, None] + guesses.astype('int64')[None, :]) % k
        return parr[idx][:, :, None].astype('int32')
    ths = dist.ram_ths(samples=build_traces, lab=build_lab)
    cont = scared.Container(ths)
    if case['attack'] == 'dpa':
        return scared.TemplateDPAAttack(container_building=cont, selection_function=asf, reverse_selection_function=rsf,
                                        model=scared.Value(), precision=case['precision'], partitions=list(PA))
    return scared.TemplateAttack(container_building=cont, reverse_selection_function=rsf,
                                 model=scared.Value(), precision=case['precision'], partitions=list(PA))


def _declared(case):
    P = [int(v) for v in case['partitions']]
    out = list(P)
    for pos, v in case.get('empty_classes') or []:
        out.insert(min(int(pos), len(out)), int(v))
    return out


def _oracle_profile(traces, lab, P):
    X = traces.astype('float64')
    L = X.shape[1]
    mus, covs, counts = [], [], []
    for c in P:
        xs = X[lab[:, 0] == c]
        counts.append(len(xs))
        mus.append(xs.mean(axis=0))
        covs.append(np.atleast_2d(np.cov(xs, rowvar=False, ddof=1)).reshape(L, L))
    return np.array(mus), np.sum(covs, axis=0), counts


def _scores(mt, tpl, pinv, index_fn, ncand):
    X = mt.astype('float64')
    N, L = X.shape
    out = []
    for c in range(ncand):
        v = X - tpl[index_fn(c)]
        d2 = np.einsum('ij,jk,ik->i', v, pinv, v)
        out.append(10.0 - d2.sum() / (N * L))
    return np.array(out)


def check_case(ctx, case):
    logging.disable(logging.WARNING)
    try:
        scared.set_batch_size(int(case['batch_size']) if case['batch_size'] else None)
        _check(ctx, case)
    finally:
        scared.set_batch_size(None)
        logging.disable(logging.NOTSET)


def _check(ctx, case):
    P = [int(v) for v in case['partitions']]
    k = len(P)
    bt, bl = case['build_traces'], case['build_labels']
    precision = case['precision']
    eps = float(np.finfo(precision).eps)
    attack = case['attack']
    a = _mk_attack(case, bt, bl)
    mruns = case['matching']
    conts = [scared.Container(dist.ram_ths(samples=m['traces'], pt=m['pt'])) for m in mruns]
    labels = ['attack:' + attack, 'prec:' + precision, 'k:%d' % k, 'L:%d' % bt.shape[1], 'tdtype:' + str(bt.dtype)]
    if case.get('run_before_build'):
        labels.append('run_before_build')
        try:
            with warnings.catch_warnings():
                warnings.simplefilter('ignore')
                a.run(conts[0])
        except Exception:  # refused, as the property requires
            pass
        else:
            raise Violation('%s: run() before build() was not refused' % attack, case)
    with warnings.catch_warnings():
        warnings.simplefilter('ignore')
        must(case, '%s.build()' % attack, a.build)
    mu, cov, counts = _oracle_profile(bt, bl, P)
    PA = _declared(case)
    K = len(PA)
    pos = [PA.index(c) for c in P]           # row of each populated class in the declared list
    # average over the DECLARED classes: a declared class without building traces has no scatter and contributes a zero matrix
    cov = cov / K
    integral = stats.is_integral(bt)
    mx = float(np.max(np.abs(bt.astype('float64'))))
    nb = bt.shape[0]
    L = bt.shape[1]
    tpl = np.asarray(a.templates, dtype='float64')
    if tpl.shape != (K, L):
        raise Violation('%s: templates shape %s, expected (declared classes, trace length) = %s' % (attack, tpl.shape, (K, L)), case)
    tpl_all = tpl
    tpl = tpl_all[pos]
    tol_mu = 8 * eps * (mx + 1) * (1 if integral else max(counts))
    bad = np.abs(tpl - mu) > tol_mu
    if bad.any():
        i, j = [int(v) for v in np.argwhere(bad)[0]]
        raise Violation('%s (%s): template of class value %d sample %d is %r, the mean of its %d building traces is %r' % (attack, precision, P[i], j, tpl[i, j], counts[i], mu[i, j]), case)
    pc = np.asarray(a.pooled_covariance, dtype='float64')
    tol_cov = 64 * eps * (mx * mx + 1) * (1 if integral else max(counts))
    if pc.shape != (L, L) or (np.abs(pc - cov) > tol_cov).any():
        raise Violation('%s (%s): pooled covariance %s differs from the average of the unbiased within-class covariances %s (tol %.3g, class sizes %s)' % (
            attack, precision, pc.tolist(), cov.tolist(), tol_cov, counts), case)
    evals = np.linalg.eigvalsh((cov + cov.T) / 2)
    lam_min, lam_max = float(evals.min()), float(evals.max())
    cond = lam_max / lam_min if lam_min > 0 else float('inf')
    pinv_o = np.linalg.pinv(cov)
    pinv_obj = np.asarray(a.pooled_covariance_inv, dtype='float64')
    # the pseudo-inverse of the exposed covariance: the same numpy function on the same matrix, so the comparison is meaningful
    # for rank-deficient covariances too (constant / duplicated samples, fewer degrees of freedom than samples)
    pinv_pc = np.linalg.pinv(pc)
    if pinv_obj.shape != pinv_pc.shape or (np.abs(pinv_obj - pinv_pc) > 1e-9 * (float(np.max(np.abs(pinv_pc))) + 1e-300)).any():
        raise Violation('%s: pooled_covariance_inv is not the pseudo-inverse of pooled_covariance (largest entry %.3g, pseudo-inverse has %.3g; covariance eigenvalues %s)' % (
            attack, float(np.max(np.abs(pinv_obj))), float(np.max(np.abs(pinv_pc))), np.round(evals, 6).tolist()), case)
    # matching runs accumulate as if the matching sets were concatenated
    all_t, all_pt = [], []
    for ri, (m, cont) in enumerate(zip(mruns, conts)):
        if ri == 1 and case.get('sibling'):
            # another attack object of the same kind, declared with the classes in another order, is built and run between two
            # runs of the attack under test: objects are independent
            sib = dict(case)
            sib['partitions'] = P[1:] + P[:1]
            sib['empty_classes'] = []
            b = _mk_attack(sib, bt, bl)
            with warnings.catch_warnings():
                warnings.simplefilter('ignore')
                must(case, 'sibling %s.build()' % attack, b.build)
                must(case, 'sibling %s.run()' % attack, b.run, scared.Container(dist.ram_ths(samples=mruns[0]['traces'], pt=mruns[0]['pt'])))
            labels.append('sibling_object_run_between_runs')
        with warnings.catch_warnings():
            warnings.simplefilter('ignore')
            must(case, '%s.run() #%d' % (attack, ri + 1), a.run, cont)
        all_t.append(m['traces'])
        all_pt.append(m['pt'])
        mt = np.concatenate(all_t, axis=0)
        pt = np.concatenate(all_pt, axis=0).astype('int64')
        scores = np.asarray(a.scores, dtype='float64')
        if attack == 'dpa':
            G = int(case['guesses'])
            ncand = G
            index_fn = lambda g: np.array(pos)[(pt + g) % k]            # noqa: E731  row of the hypothesised class value in the declared list
        else:
            ncand = K
            index_fn = lambda c: c                        # noqa: E731
        if scores.shape != (ncand,):
            raise Violation('%s: scores shape %s, expected (%d,)' % (attack, scores.shape, ncand), case)
        if a.processed_traces != mt.shape[0]:
            raise Violation('%s: processed_traces %s after matching %d traces' % (attack, a.processed_traces, mt.shape[0]), case)
        if not cond < 1e4:
            # rank-deficient / ill-conditioned covariance: only the relation to the exposed profile is asserted, with the
            # rounding of the subtraction amplified by the norm of the pseudo-inverse
            sa = _scores(mt, tpl_all, pinv_pc, index_fn, ncand)
            mxm = float(np.max(np.abs(mt.astype('float64')))) + mx + 1
            normp = float(np.linalg.norm(pinv_pc, 2))
            tol_s = 64 * eps * mxm * mxm * normp * L + 1e-9 * (np.abs(10 - sa) + 1)
            if normp < 1e8 and (np.abs(scores - sa) > tol_s).any():
                c = int(np.argwhere(np.abs(scores - sa) > tol_s)[0][0])
                raise Violation('%s (%s) run #%d (rank-deficient covariance): score of candidate %d is %r, 10 - mean squared Mahalanobis distance with the pseudo-inverse of the exposed covariance is %r' % (
                    attack, precision, ri + 1, c, scores[c], sa[c]), case)
            ctx.count('score_vectors_compared_rank_deficient' if normp < 1e8 else 'skipped_scores_ill_conditioned')
            continue
        mu_all = np.array(tpl_all, copy=True)
        mu_all[pos] = mu                      # oracle means for the populated classes (rows of empty declared classes are taken as exposed)
        sa = _scores(mt, tpl_all, pinv_pc, index_fn, ncand)
        sb = _scores(mt, mu_all, pinv_o, index_fn, ncand)
        mxm = float(np.max(np.abs(mt.astype('float64')))) + mx + 1
        d_a = np.abs(10 - sa) + 1
        tol_a = 16 * eps * mxm * mxm / lam_min + 1e-9 * cond * d_a
        tol_b = tol_a + 4 * d_a * cond * (tol_cov / lam_max) + 4 * tol_mu * mxm / lam_min
        for name, ref, tol in (('exposed templates/covariance', sa, tol_a), ('class means / averaged unbiased covariances of the building set', sb, tol_b)):
            badc = np.abs(scores - ref) > tol
            if badc.any():
                c = int(np.argwhere(badc)[0][0])
                raise Violation('%s (%s) run #%d: score of candidate %d is %r, 10 - mean squared Mahalanobis distance from the %s is %r (tol %.3g, %d matched traces, trace length %d)' % (
                    attack, precision, ri + 1, c, scores[c], name, ref[c], float(np.broadcast_to(tol, ref.shape)[c]), mt.shape[0], L), case)
        order = np.sort(sb)
        if len(order) > 1 and order[-1] - order[-2] > 4 * float(np.max(tol_b)) and int(np.argmax(scores)) != int(np.argmax(sb)):
            raise Violation('%s: best candidate %d, expected %d' % (attack, int(np.argmax(scores)), int(np.argmax(sb))), case)
        ctx.count('score_vectors_compared')
    bs = int(case['batch_size']) if case['batch_size'] else 10 ** 9
    multi = nb > bs or any(m['traces'].shape[0] > bs for m in mruns) or len(mruns) > 1
    unbalanced = len(set(counts)) > 1
    if unbalanced:
        labels.append('unbalanced')
    if multi:
        labels.append('multi_batch_or_two_runs')
    if not cond < 1e4:
        labels.append('rank_deficient_or_ill_conditioned_covariance')
    if P != sorted(P) or P != list(range(k)):
        labels.append('non_contiguous_class_list')
    if K > k:
        labels.append('declared_class_without_building_traces')
    ctx.case(case, unbalanced and multi, labels)


def replay(ctx, case):
    check_case(ctx, case)


def _unit_pool(pool_seed):
    """the fixed lists plus per-unit generated ones: transpositions / permutations of range(k) and gapped value lists"""
    out = [list(p) for p in POOL]
    for i in range(8):
        gp = gen.rng(pool_seed, 'c14-class-lists', i)
        k = int(gp.integers(3, 7))
        style = i % 4
        if style == 0:      # one transposition of 0..k-1
            p = list(range(k))
            a, b = sorted(gp.choice(k, size=2, replace=False).tolist())
            p[a], p[b] = p[b], p[a]
        elif style == 1:    # interior transposition: first and last class stay in place
            p = list(range(k))
            a = int(gp.integers(1, k - 2)) if k > 3 else 1
            p[a], p[a + 1] = p[a + 1], p[a]
        elif style == 2:
            p = gp.permutation(k).tolist()
        else:
            p = sorted(set(int(v) for v in gp.integers(0, 400, size=k)))
            gp.shuffle(p)
            p = [int(v) for v in p] if len(p) >= 2 else [0, 1]
        out.append([int(v) for v in p])
    return out


@st.composite
def cases(draw, attack, precision, tdtypes, pool_seed=0):
    seed64 = draw(st.integers(0, 2 ** 63))
    g = np.random.Generator(np.random.PCG64(seed64))
    P = draw(st.sampled_from(_unit_pool(pool_seed)))
    k = len(P)
    L = draw(st.integers(1, 6))
    tdt = draw(st.sampled_from(tdtypes))
    isint = np.dtype(tdt).kind in 'iu'
    counts = [draw(st.integers(2, 8)) for _ in range(k)]
    if draw(st.integers(0, 5)) == 0:
        counts = [2] * k          # few traces per class: with long traces the pooled covariance is rank-deficient
    if draw(st.booleans()):
        counts = [counts[0]] * k
    lab = np.concatenate([np.full(c, P[i]) for i, c in enumerate(counts)])
    n_und = draw(st.sampled_from([0, 0, 1, 3]))
    und_vals = [v for v in (max(P) + 1, max(P) + 4) ]
    if n_und:
        lab = np.concatenate([lab, g.choice(und_vals, size=n_und)])
    g.shuffle(lab)
    n = len(lab)
    lab_idx = np.array([P.index(int(v)) if int(v) in P else k for v in lab])
    spread = 12 if precision == 'float32' else 60
    centers = g.integers(-spread, spread + 1, size=(k + 1, L))
    mix = g.integers(-2, 3, size=(L, L)) if (L > 1 and draw(st.booleans())) else np.eye(L, dtype='int64')
    if isint:
        info = np.iinfo(tdt)
        noise = g.integers(-4, 5, size=(n, L))
        base = centers[lab_idx] + noise + (noise @ mix) // 2
        if info.min == 0:
            base = base + spread + 20
        bt = np.clip(base, int(info.min), int(info.max)).astype(tdt)
    else:
        if draw(st.booleans()):
            noise = g.integers(-4, 5, size=(n, L))
            bt = (centers[lab_idx] + noise + (noise @ mix) // 2).astype(tdt)
        else:
            noise = g.normal(size=(n, L)) * 2
            bt = (centers[lab_idx] + noise + 0.3 * (noise @ mix)).astype(tdt)
    # rank-deficient profiles: a duplicated sample, a constant sample, or (below) fewer within-class degrees of freedom than samples
    degenerate = draw(st.sampled_from(['no', 'no', 'no', 'dup', 'const', 'dup_scaled'])) if L >= 2 else 'no'
    if degenerate == 'dup':
        bt[:, L - 1] = bt[:, 0]
    elif degenerate == 'const':
        bt[:, L - 1] = bt[0, L - 1]
    elif degenerate == 'dup_scaled' and not isint:
        bt[:, L - 1] = (bt[:, 0].astype('float64') * 0.5 + 1).astype(tdt)
    ddt = draw(st.sampled_from([d for d in gen.CLASS_DTYPES if int(lab.max()) <= np.iinfo(d).max and int(lab.min()) >= np.iinfo(d).min]))
    sibling = draw(st.sampled_from([False, False, True]))
    nm = 2 if sibling else draw(st.integers(1, 2))
    matching = []
    for _ in range(nm):
        m = draw(st.one_of(st.integers(1, 6), st.integers(1, 30)))
        pt = g.integers(0, 50, size=m)
        src = g.integers(0, n, size=m)
        if isint:
            info = np.iinfo(tdt)
            mt = np.clip(bt[src].astype('int64') + g.integers(-3, 4, size=(m, L)), int(info.min), int(info.max)).astype(tdt)
        else:
            mt = (bt[src].astype('float64') + g.integers(-3, 4, size=(m, L))).astype(tdt)
        if degenerate == 'dup':
            mt[:, L - 1] = mt[:, 0]
        elif degenerate == 'const':
            mt[:, L - 1] = bt[0, L - 1]
        matching.append({'traces': mt, 'pt': pt.astype('uint8')})
    return {'kind': 'template', 'attack': attack, 'precision': precision, 'partitions': list(P), 'build_traces': bt, 'build_labels': lab.astype(ddt).reshape(n, 1),
            'batch_size': draw(st.sampled_from([0, 0, 1, 3, 5, 7, 16])), 'guesses': draw(st.integers(2, 5)), 'matching': matching,
            'run_before_build': draw(st.sampled_from([False, False, True])), 'sibling': sibling,
            'empty_classes': [[draw(st.integers(0, k)), max(P) + 11 + 3 * j] for j in range(draw(st.sampled_from([0, 0, 0, 1, 2])))]}


def unit_generated(ctx, attack, precision, tdtypes, n):
    hyp.run(ctx, cases(attack, precision, tdtypes, ctx.seed), check_case, n, shrink_budget=60 if ctx.tier == 'quick' else 400)


def units(tier):
    q = tier == 'quick'
    us = []
    for attack in ('static', 'dpa'):
        for precision, tdts in [('float32', ['uint8', 'float32']), ('float64', ['int16', 'float64']), ('float32', ['int8', 'float32']), ('float64', ['uint8', 'float32']),
                                ('float64', ['uint16', 'float64']), ('float32', ['int16', 'float64']), ('float64', ['int32', 'float64']), ('float32', ['uint8', 'float64'])]:
            us.append({'name': '%s-%s-%s' % (attack, precision, '+'.join(tdts)), 'fn': 'unit_generated',
                       'kwargs': {'attack': attack, 'precision': precision, 'tdtypes': tdts, 'n': 150 if q else 2000}})
    return us


def selftest():
    X = np.array([[1., 2.], [3., 5.], [2., 2.], [7., 1.], [9., 4.], [8., 8.]])
    lab = np.array([[0], [0], [0], [1], [1], [1]])
    mu, cov, counts = _oracle_profile(X, lab, [0, 1])
    assert np.allclose(mu, [[2, 3], [8, 13 / 3]]) and counts == [3, 3]
    c0 = np.cov(X[:3].T)
    c1 = np.cov(X[3:].T)
    assert np.allclose(cov, c0 + c1)          # _oracle_profile returns the SUM of the per-class covariances (the caller divides by the number of declared classes)
    cov = cov / 2
    s = _scores(X[:1], mu, np.linalg.pinv(cov), lambda c: c, 2)
    v = X[0] - mu[0]
    assert abs(s[0] - (10 - v @ np.linalg.pinv(cov) @ v / 2)) < 1e-12
    return 'template-oracle-ok'
