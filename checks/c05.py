"""C05 — AES encrypt/decrypt and every intermediate stop point conform to FIPS-197."""
import itertools

import numpy as np
from hypothesis import strategies as st

from scared import aes
from vlib import gen, hyp
from vlib.core import Violation, must
from vlib.oracles import aes_ref as R

PROP = 'C05'
LEVEL = 'exploration'
EXHAUSTIVE = False
TECHNIQUE = 'complete enumeration of (direction, key size, at_round, after_step, broadcast shape) with generated keys/blocks, differential against an independent FIPS-197 reference; Hypothesis-generated calls on top'
RULE = ('cases = every (encrypt|decrypt) x key size x at_round x after_step x broadcast shape x input dtype configuration, each with fresh random keys/blocks, '
        'plus exhaustive per-position S-box / per-basis-vector MixColumn primitive cases and Hypothesis-generated calls; '
        'non-trivial = stop point strictly inside the cipher, or a many-keys / paired broadcast, or a primitive case; distinct = digest of (config, key, block).')
LEVEL_TEXT = ('The configuration space of stop points and broadcasting shapes is finite and enumerated completely in every run; only the key/block data are sampled. '
              'Each returned state is compared with an independent GF(2^8)-computed FIPS-197 reference (validated at start against FIPS-197 App. A/B/C and 2100 '
              'vectors from an independent C implementation), plus inversion and no-mutation checks. Exploration: data space is 2^256, sampled.')
LEVEL_NOTE = 'trusted: vlib/oracles/aes_ref.py (self-tested each run against FIPS-197 vectors and committed pycryptodome KATs); (round, step) -> FIPS prefix map documented in DESIGN §3 C05'
ASSUMPTIONS = ['reference cipher correct (self-test at start, failure = harness error)', 'result shapes compared after squeeze as documented (N=1 batches collapse)']

KEY_SIZES = (16, 24, 32)
SHAPES = ('one-one', 'many-one', 'one-many', 'paired')
DTYPES = ('uint8', 'int16', 'int64', 'uint32')


# operations of one round in the order the library applies them (the reference stops after operation number `step`)
ENC_STEP_NAMES = ['SUB_BYTES', 'SHIFT_ROWS', 'MIX_COLUMNS', 'ADD_ROUND_KEY']
DEC_STEP_NAMES = ['INV_ADD_ROUND_KEY', 'INV_MIX_COLUMNS', 'INV_SHIFT_ROWS', 'INV_SUB_BYTES']


def _ref_many(keys, blocks, mode, rnd, step):
    return np.array([R.state_at(bytes(k), bytes(b), mode, rnd, step) for k, b in zip(keys, blocks)], dtype='uint8')


def check_stop(ctx, case):
    mode, rnd, step, shape = case['mode'], case['at_round'], case['after_step'], case['shape']
    keys, blocks = case['keys'], case['blocks']          # 2-D uint8 arrays (already broadcast to pairs for the oracle)
    dt = case['dtype']
    if shape == 'one-one':
        a_state, a_key = blocks[0], keys[0]
    elif shape == 'many-one':
        a_state, a_key = blocks, keys[0]
    elif shape == 'one-many':
        a_state, a_key = blocks[0], keys
    else:
        a_state, a_key = blocks, keys
    a_state = a_state.astype(dt)
    a_key = a_key.astype(dt)
    f = aes.encrypt if mode == 'encrypt' else aes.decrypt
    nr = keys.shape[1] // 4 + 6
    kw = {}
    if rnd is not None:
        kw['at_round'] = rnd
    if step is not None:
        # plain int or the documented enumeration member
        # as a member of the documented enumeration the step is selected BY NAME: the name of the operation the reference stops after
        kw['after_step'] = getattr(aes.Steps if mode == 'encrypt' else aes.InverseSteps, (ENC_STEP_NAMES if mode == 'encrypt' else DEC_STEP_NAMES)[step]) if case.get('step_enum') else step
    if case.get('prime'):
        # the same array OBJECTS are used for an earlier call with other contents, then overwritten in place
        # (an identity-keyed cache or a retained reference must not leak into the second call)
        s_buf, k_buf = a_state.copy(), a_key.copy()
        k_buf[...] = np.roll(a_key, 1, axis=-1) ^ 0x5a if a_key.dtype.kind in 'iu' else a_key
        s_buf[...] = np.roll(a_state, 3, axis=-1)
        must(case, 'aes.%s (priming call)' % mode, f, s_buf, k_buf, **kw)
        k_buf[...] = a_key
        s_buf[...] = a_state
        a_state, a_key = s_buf, k_buf
    if not case.get('prime'):
        a_state, a_key = gen.L(case, a_state), gen.L(case, a_key, 3)       # C / Fortran / strided / negative-stride views
    s0, k0 = a_state.copy(), a_key.copy()
    out = must(case, 'aes.%s(at_round=%s, after_step=%s, shape=%s)' % (mode, rnd, step, shape), f, a_state, a_key, **kw)
    if case.get('hold', gen.layout_of(case, 7) in ('F', 'strided')):
        # the result is kept while the function is called again with other arguments of the same shapes: it must not change
        try:
            f(gen._perturb(a_state), gen._perturb(a_key), **kw)
        except Exception:
            pass
    if isinstance(out, np.ndarray) and a_state.ndim and a_state.flags.writeable and a_key.flags.writeable:
        # the caller refills its own block / key buffers for the next acquisition while the result is still held: the result must not follow them
        held = np.array(out, copy=True)
        a_state[...] = gen._perturb(s0)
        a_key[...] = gen._perturb(k0)
        same = np.array_equal(out, held)
        a_state[...] = s0
        a_key[...] = k0
        if not same:
            raise Violation('aes.%s(at_round=%s, after_step=%s, shape=%s): the returned state changed when the caller refilled the arrays it had passed (the result aliases an argument)' % (mode, rnd, step, shape), case)
    # documented defaults: at_round omitted = last round, after_step omitted = last operation of the round
    erk, est = (nr if rnd is None else rnd), (3 if step is None else step)
    n = max(len(blocks) if shape in ('many-one', 'paired') else 1, len(keys) if shape in ('one-many', 'paired') else 1)
    kk = keys if shape in ('one-many', 'paired') else np.repeat(keys[:1], n, axis=0)
    bb = blocks if shape in ('many-one', 'paired') else np.repeat(blocks[:1], n, axis=0)
    exp = _ref_many(kk, bb, mode, erk, est).squeeze()
    if not isinstance(out, np.ndarray) or out.shape != exp.shape or not np.array_equal(out.astype('int64'), exp.astype('int64')):
        raise Violation('aes.%s at_round=%s after_step=%s %s: state differs from FIPS-197 reference (got %s, expected %s)' % (
            mode, rnd, step, shape, np.asarray(out).tolist() if np.size(out) <= 32 else 'shape %s' % (np.shape(out),), exp.tolist() if exp.size <= 32 else '…'), case)
    if not (np.array_equal(a_state, s0) and np.array_equal(a_key, k0)) or a_state.dtype != s0.dtype:
        raise Violation('aes.%s modified the caller\'s arrays' % mode, case)
    if rnd is None and step is None:
        g = aes.decrypt if mode == 'encrypt' else aes.encrypt
        back = must(case, 'inverse call', g, out, a_key)
        if np.shape(back) != bb.squeeze().shape or not np.array_equal(np.asarray(back).astype('int64'), bb.squeeze().astype('int64')):
            raise Violation('aes decrypt(encrypt(x)) != x (%s)' % shape, case)
    inside = not (erk == nr and est == 3)
    ctx.case(case, inside or shape in ('one-many', 'paired'),
             ['mode:' + mode, 'keysize:%d' % keys.shape[1], 'shape:' + shape, 'dtype:' + dt, 'inside' if inside else 'full',
              'args:%s%s' % ('r' if rnd is not None else '-', 's' if step is not None else '-')] + (['step_as_enum'] if case.get('step_enum') else []) + (['same_arrays_reused'] if case.get('prime') else []),
             key=(mode, rnd, step, shape, dt, keys, blocks, bool(case.get('step_enum')), bool(case.get('prime'))))


def _structure(g, arr):
    """batches with repeated rows: first row == last row with other rows in between, or all rows equal"""
    if len(arr) >= 3:
        r = int(g.integers(4))
        if r == 0:
            arr[-1] = arr[0]
        elif r == 1:
            arr[:] = arr[0]
    return arr


def _mk(mode, ks, rnd, step, shape, dt, g):
    n = int(g.integers(1, 6)) if shape != 'one-one' else 1
    keys = _structure(g, g.integers(0, 256, size=(n if shape in ('one-many', 'paired') else 1, ks)).astype('uint8'))
    blocks = _structure(g, g.integers(0, 256, size=(n if shape in ('many-one', 'paired') else 1, 16)).astype('uint8'))
    return {'kind': 'stop', 'mode': mode, 'at_round': rnd, 'after_step': step, 'shape': shape, 'dtype': dt, 'keys': keys, 'blocks': blocks}


def unit_enum(ctx, mode, reps):
    def cases():
        for ks in KEY_SIZES:
            nr = ks // 4 + 6
            # every (at_round, after_step) pair, plus each argument left to its default
            stops = [(None, None)] + list(itertools.product(range(nr + 1), range(4))) + [(None, st_) for st_ in range(4)] + [(r_, None) for r_ in range(nr + 1)]
            for rnd, step in stops:
                for shape in SHAPES:
                    for rep in range(reps):
                        g = gen.rng(ctx.seed, mode, ks, rnd, step, shape, rep)
                        dt = 'uint8' if rep % 2 == 0 else DTYPES[int(g.integers(len(DTYPES)))]
                        c = _mk(mode, ks, rnd, step, shape, dt, g)
                        c['step_enum'] = bool(g.integers(2)) if step is not None else False
                        c['prime'] = bool(g.integers(3) == 0)
                        yield c
    hyp.run_enum(ctx, cases(), check_stop)


@st.composite
def stop_cases(draw):
    mode = draw(st.sampled_from(['encrypt', 'decrypt']))
    ks = draw(st.sampled_from(KEY_SIZES))
    nr = ks // 4 + 6
    full = draw(st.integers(0, 5)) == 0
    rnd, step = (None, None) if full else (draw(st.integers(0, nr)), draw(st.integers(0, 3)))
    omit = draw(st.sampled_from(['none', 'none', 'none', 'round', 'step']))
    if omit == 'round':
        rnd = None
    elif omit == 'step':
        step = None
    shape = draw(st.sampled_from(SHAPES))
    n = 1 if shape == 'one-one' else draw(st.integers(1, 3))
    nk = n if shape in ('one-many', 'paired') else 1
    nb = n if shape in ('many-one', 'paired') else 1
    keys = np.frombuffer(draw(st.binary(min_size=nk * ks, max_size=nk * ks)), dtype='uint8').reshape(nk, ks).copy()
    blocks = np.frombuffer(draw(st.binary(min_size=nb * 16, max_size=nb * 16)), dtype='uint8').reshape(nb, 16).copy()
    return {'kind': 'stop', 'mode': mode, 'at_round': rnd, 'after_step': step, 'shape': shape, 'dtype': draw(st.sampled_from(DTYPES)),
            'keys': keys, 'blocks': blocks, 'step_enum': draw(st.booleans()) if step is not None else False, 'prime': draw(st.booleans())}


def unit_generated(ctx, n):
    hyp.run(ctx, stop_cases(), check_stop, n)


# ------------------------------------------------------------------------------------------------
# primitives

PRIMS = {
    'sub_bytes': (aes.sub_bytes, R.sub), 'inv_sub_bytes': (aes.inv_sub_bytes, R.isub),
    'shift_rows': (aes.shift_rows, R.shift), 'inv_shift_rows': (aes.inv_shift_rows, R.ishift),
    'mix_columns': (aes.mix_columns, R.mix), 'inv_mix_columns': (aes.inv_mix_columns, R.imix),
}


def check_prim(ctx, case):
    name = case['prim']
    x = case['state']
    lay = case.get('layout')
    if lay == 'swap' and x.ndim >= 3:
        x = np.ascontiguousarray(x.swapaxes(0, 1)).swapaxes(0, 1)      # same values, leading axes not in C order (as selection functions build them)
    elif lay:
        x = gen.relayout(x, lay)
    x0 = x.copy()
    if name in PRIMS:
        f, ref = PRIMS[name]
        out = must(case, 'aes.' + name, f, x)
        exp = np.array([ref(list(map(int, row))) for row in x.reshape(-1, 16)], dtype='int64').reshape(x.shape)
    elif name in ('mix_column', 'inv_mix_column'):
        f = aes.mix_column if name == 'mix_column' else aes.inv_mix_column
        m = [2, 3, 1, 1] if name == 'mix_column' else [14, 11, 13, 9]
        out = must(case, 'aes.' + name, f, x)
        exp = np.array([R.mixcol(list(map(int, row)), m) for row in x.reshape(-1, 4)], dtype='int64').reshape(x.shape)
    elif name == 'add_round_key':
        k = case['keys']
        out = must(case, 'aes.add_round_key', aes.add_round_key, x, k)
        exp = np.bitwise_xor(x.astype('int64'), k.astype('int64'))
    else:
        raise ValueError(name)
    if np.shape(out) != exp.shape or not np.array_equal(np.asarray(out).astype('int64'), exp):
        bad = np.argwhere(np.asarray(out).astype('int64') != exp)[:1].tolist() if np.shape(out) == exp.shape else 'shape'
        raise Violation('aes.%s differs from its FIPS-197 definition (first differing index %s)' % (name, bad), case)
    if not np.array_equal(x, x0):
        raise Violation('aes.%s modified its input' % name, case)
    ctx.case(case, True, ['prim:' + name, 'ndim:%d' % x.ndim] + (['layout:' + lay] if lay else []))


def unit_primitives(ctx, reps):
    def cases():
        g = gen.rng(ctx.seed, 'prims')
        for name in ('sub_bytes', 'inv_sub_bytes'):
            for pos in range(16):
                st_ = g.integers(0, 256, size=(256, 16)).astype('uint8')
                st_[:, pos] = np.arange(256)
                yield {'kind': 'prim', 'prim': name, 'state': st_}
        for name in ('mix_column', 'inv_mix_column'):
            basis = np.zeros((4 * 256, 4), dtype='uint8')
            for p in range(4):
                basis[p * 256:(p + 1) * 256, p] = np.arange(256)
            yield {'kind': 'prim', 'prim': name, 'state': basis}
            for _ in range(reps):
                yield {'kind': 'prim', 'prim': name, 'state': g.integers(0, 256, size=(int(g.integers(1, 6)), 4)).astype('uint8')}
                yield {'kind': 'prim', 'prim': name, 'state': g.integers(0, 256, size=4).astype('uint8')}
        for name in ('shift_rows', 'inv_shift_rows', 'mix_columns', 'inv_mix_columns', 'sub_bytes', 'inv_sub_bytes'):
            yield {'kind': 'prim', 'prim': name, 'state': np.arange(16, dtype='uint8')}
            for pos in range(16):
                e = np.zeros((255, 16), dtype='uint8')
                e[:, pos] = np.arange(1, 256)
                yield {'kind': 'prim', 'prim': name, 'state': e}
            for _ in range(reps):
                shp = [(16,), (int(g.integers(1, 5)), 16), (2, int(g.integers(1, 4)), 16), (int(g.integers(2, 4)), int(g.integers(2, 4)), 16), (2, 3, 2, 16)][int(g.integers(5))]
                dt = DTYPES[int(g.integers(len(DTYPES)))]
                yield {'kind': 'prim', 'prim': name, 'state': g.integers(0, 256, size=shp).astype(dt),
                       'layout': [None, 'F', 'strided', 'negstride', 'swap', 'swap'][int(g.integers(6))]}
        for _ in range(reps * 4):
            n = int(g.integers(1, 5))
            sh = [((16,), (16,)), ((16,), (n, 16)), ((n, 16), (16,)), ((n, 16), (n, 16))][int(g.integers(4))]
            yield {'kind': 'prim', 'prim': 'add_round_key', 'state': g.integers(0, 256, size=sh[0]).astype('uint8'),
                   'keys': g.integers(0, 256, size=sh[1]).astype('uint8')}
    hyp.run_enum(ctx, cases(), check_prim)


def check_large(ctx, case):
    """a batch of more than 65536 blocks (one key / paired keys): equal to the same call on chunks of 4096 blocks, 48 rows also against the reference"""
    mode, (seed, rep) = case['mode'], case['seed']
    g = gen.rng(int(seed), 'c05-large', mode, int(rep))
    n = int(g.choice([65537, 65536 + 4096 + 3, 70001, 131073])) if rep % 2 == 0 else int(g.choice([32769, 65535, 65536]))
    ks = int(g.choice([16, 24, 32]))
    shape = 'many-one' if g.integers(2) else 'paired'
    nr = ks // 4 + 6
    stop = g.integers(3) == 0
    kw = {'at_round': int(g.integers(0, nr + 1)), 'after_step': int(g.integers(0, 4))} if stop else {}
    blocks = g.integers(0, 256, size=(n, 16)).astype('uint8')
    keys = g.integers(0, 256, size=(n, ks)).astype('uint8') if shape == 'paired' else g.integers(0, 256, size=(1, ks)).astype('uint8')
    f = aes.encrypt if mode == 'encrypt' else aes.decrypt
    a_key = keys if shape == 'paired' else keys[0]
    out = must(case, 'aes.%s on %d blocks (%s, %s)' % (mode, n, shape, kw), f, blocks, a_key, **kw)
    if not isinstance(out, np.ndarray) or out.shape != (n, 16):
        raise Violation('aes.%s on %d blocks: result shape %s' % (mode, n, np.shape(out)), case)
    for a in range(0, n, 4096):
        part = f(blocks[a:a + 4096], a_key[a:a + 4096] if shape == 'paired' else a_key, **kw)
        if not np.array_equal(out[a:a + 4096], np.asarray(part).reshape(-1, 16)):      # a single remaining block comes back as one state
            raise Violation('aes.%s on %d blocks (%s, %s): rows %d.. differ from the same call on those 4096 blocks alone' % (mode, n, shape, kw, a), case)
    rows = sorted(set([0, n - 1, 65535 % n, 65536 % n] + [int(v) for v in g.integers(0, n, size=44)]))
    erk, est = kw.get('at_round', nr), kw.get('after_step', 3)
    for r in rows:
        exp = R.state_at(bytes(keys[r if shape == 'paired' else 0]), bytes(blocks[r]), mode, erk, est)
        if list(map(int, out[r])) != list(exp):
            raise Violation('aes.%s on %d blocks (%s, %s): row %d differs from the FIPS-197 reference' % (mode, n, shape, kw, r), case)
    ctx.case(case, True, ['large_batch:' + mode, 'shape:' + shape, 'stop' if kw else 'full', 'blocks>65536' if n > 65536 else 'blocks<=65536'], key=(mode, n, ks, shape, str(kw), rep))


def unit_large(ctx, reps):
    hyp.run_enum(ctx, ({'kind': 'large', 'mode': mode, 'seed': [int(ctx.seed), rep]} for rep in range(reps) for mode in ('encrypt', 'decrypt')), check_large)


def units(tier):
    q = tier == 'quick'
    reps = 2 if q else 100
    us = [{'name': 'enum-' + m, 'fn': 'unit_enum', 'kwargs': {'mode': m, 'reps': reps}} for m in ('encrypt', 'decrypt')]
    if not q:
        # split the thorough enumeration over more processes
        us = [{'name': 'enum-%s-%d' % (m, i), 'fn': 'unit_enum_shard', 'kwargs': {'mode': m, 'reps': reps // 6, 'shard': i}} for m in ('encrypt', 'decrypt') for i in range(6)]
    us.append({'name': 'primitives', 'fn': 'unit_primitives', 'kwargs': {'reps': 20 if q else 2000}})
    us.append({'name': 'large-batches', 'fn': 'unit_large', 'kwargs': {'reps': 2 if q else 12}})
    for i in range(2 if q else 8):
        us.append({'name': 'generated-%d' % i, 'fn': 'unit_generated', 'kwargs': {'n': 400 if q else 12000}})
    return us


def unit_enum_shard(ctx, mode, reps, shard):
    ctx.seed = ctx.seed + shard
    unit_enum(ctx, mode, reps)


def selftest():
    return R.selftest()


def replay(ctx, case):
    {'prim': check_prim, 'large': check_large}.get(case['kind'], check_stop)(ctx, case)


# dimensions added after the fourth and fifth round of seeded changes (DESIGN.md 8.3, 8.4); part of the rule reported in the evidence
RULE += ' Added with the fourth and fifth round of seeded changes: batches of 32 769..131 073 blocks compared with 4096-block chunks and 48 reference rows; caller refills its argument arrays while holding the result.'
