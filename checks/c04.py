"""C04 — ANOVA, NICV and SNR results equal their definitions over value classes."""
import math
import warnings

import numpy as np
from hypothesis import strategies as st

from vlib import dist, gen, hyp
from vlib.core import Violation, must
from vlib.oracles import stats

PROP = 'C04'
LEVEL = 'exploration'
TECHNIQUE = ('Hypothesis-generated trace/label matrices with a menu of class balances (balanced, geometric, one trace per class, single class, empty declared '
             'classes) and column kinds (random, constant, constant within each class, two-valued), explicit and automatic class sets on both sides of the '
             '9/64/256 thresholds; oracle = one-way F / NICV / SNR evaluated from the definition in exact rational arithmetic (two-pass float64 for real data)')
RULE = ('case = (metric in anova|nicv|snr, precision, regime, n in 2..200 traces, 2..6 samples, 1..4 words, class set explicit (13 lists of 1..64 values, some with offset/stride) or automatic '
        '(first-batch max in {0,1,7,8,9,10,62,63,64,65,200,254,255}), per-word class balance, per-sample column kind, 1-3 batches, forced kernel per batch); every (word, sample) '
        'cell is one oracle comparison. Non-trivial = some word has unequal class sizes or a declared class without traces; distinct = digest of the materialised case.')
LEVEL_TEXT = ('Every (word, sample) cell of every generated instance is compared with the textbook definition (F with k-1 / n-k degrees of freedom over non-empty classes, '
              'size-weighted NICV, equally weighted SNR) computed independently; cells whose statistic is undefined must be NaN and no cell may be infinite (integer-valued inputs, '
              'all sums exactly representable). Exploration: inputs are sampled; degenerate and unbalanced shapes are forced by construction.')
LEVEL_NOTE = 'trusted: vlib/oracles/stats.py partitioned() (self-tested against scipy.stats.f_oneway and direct numpy formulas at start)'
ASSUMPTIONS = [
    'the final result is also requested after earlier compute() calls (between batches, twice in a row): it must still be the definition over all processed traces',
    'NaN-for-undefined is asserted only in the exact regime (integer-valued traces bounded so that every sum and squared sum is exactly representable in the precision)',
    'cells whose first-order error bound exceeds 5% of the value (ill-conditioned in the requested precision) are skipped and counted, never asserted',
    'rounded regime: tolerance = first-order bound of the final formula x number of traces (accumulation rounding)',
    'kernel choice is forced through the SCARED_VERIF hook so that a case is a pure function of its description; both kernels occur',
]

METRICS = ('anova', 'nicv', 'snr')
CLASS_LISTS = [(1, 0, 1), (2, 0, 1), (2, 5, 3), (3, 0, 1), (3, 1, 2), (4, 1, 2), (5, 0, 1), (8, 0, 1), (9, 0, 1), (9, 1, 1), (10, 0, 1), (16, 0, 2), (64, 0, 1),
               (5, -2, 1), (4, -3, 2), (3, -300, 300)]        # signed intermediate values: classes may be negative values
AUTO_MAX = [0, 1, 7, 8, 9, 10, 62, 63, 64, 65, 200, 254, 255]


def _bound(n, precision):
    if precision == 'float32':
        return max(1, int(min(math.sqrt(1.3e5 / n), 4096 / n)))
    return 2000


def auto_classes(first_batch_max):
    for r in (9, 64, 256):
        if first_batch_max < r:
            return list(range(r))
    raise ValueError(first_batch_max)


def run_instance(case, obj=None):
    """feed the case to a fresh distinguisher, return the computed result"""
    metric, precision = case['dist'], case['precision']
    traces, data = case['traces'], case['data']
    n = traces.shape[0]
    cuts = [0] + list(case['cuts']) + [n]
    parts = case['partitions']
    obj = dist.make(metric, precision=precision, partitions=None if parts is None else list(parts))
    kernels = list(case.get('kernels') or [])
    if kernels:
        obj._verif_force_kernel = list(kernels)
    mid = list(case.get('mid_computes') or [])
    held = []
    with warnings.catch_warnings():
        warnings.simplefilter('ignore')
        for bi, (a, b) in enumerate(zip(cuts, cuts[1:])):
            if b > a:
                lt, ld = case.get('layout') or ('C', 'C')
                if case.get('same_buffer') and all(y - x == cuts[1] - cuts[0] for x, y in zip(cuts, cuts[1:])):
                    # ONE preallocated pair of arrays, refilled in place before every update
                    if bi == 0:
                        tbuf, dbuf = np.array(traces[a:b], copy=True), np.array(data[a:b], copy=True)
                    else:
                        tbuf[...] = traces[a:b]
                        dbuf[...] = data[a:b]
                    must(case, '%s.update (same buffers refilled in place)' % metric, obj.update, tbuf, dbuf)
                else:
                    must(case, '%s.update' % metric, obj.update, gen.relayout(traces[a:b], lt), gen.relayout(data[a:b], ld))
                if bi < len(mid) and mid[bi]:
                    r = must(case, '%s.compute between batches' % metric, obj.compute)      # must not disturb what follows
                    held.append((bi, r, np.array(r, copy=True)))
        res = must(case, '%s.compute' % metric, obj.compute)
        for bi, r, snapshot in held:
            # a result obtained earlier stays what it was: it is the statistic of the batches processed up to then
            if not dist.same(r, snapshot):
                raise Violation('%s: the array returned by compute() after batch %d changed when later batches were processed / compute() was called again' % (metric, bi + 1), case)
        if case.get('compute_twice'):
            _first = np.array(res, copy=True)
            if isinstance(res, np.ndarray) and res.flags.writeable:
                res[...] = -12345.0            # the caller owns what compute() returned: overwriting it must not change the next answer
            res = _first
            res2 = must(case, '%s.compute (second call)' % metric, obj.compute)
            if not dist.same(res, res2):
                raise Violation('%s: two consecutive compute() calls without new data differ' % metric, case)
            res = res2
    return obj, res


def check_case(ctx, case):
    metric, precision, regime = case['dist'], case['precision'], case['regime']
    traces, data = case['traces'], case['data']
    n, s = traces.shape
    obj, res = run_instance(case)
    wshape = data.shape[1:]
    if not isinstance(res, np.ndarray) or res.shape != tuple(wshape) + (s,):
        raise Violation('%s: result shape %s, expected data.shape[1:] + (samples,) = %s' % (metric, np.shape(res), tuple(wshape) + (s,)), case)
    d2 = data.reshape(n, -1)
    if case['partitions'] is None:
        first = d2[:([0] + list(case['cuts']) + [n])[1]]
        classes = auto_classes(int(first.max()))
        got_parts = [int(v) for v in obj.partitions]
        if not set(int(v) for v in np.unique(first)) <= set(got_parts):
            raise Violation('%s: automatic class set %s..%s does not contain every value of the first batch (max %d)' % (metric, got_parts[:1], got_parts[-1:], int(first.max())), case)
    else:
        classes = list(case['partitions'])
    eps = float(np.finfo(precision).eps)
    val, tol, defined = stats.partitioned(metric, traces, d2, classes, eps)
    got = np.asarray(res, dtype='float64').reshape(-1, s)
    factor = 1.0 if regime == 'exact' else float(n)
    n_undef = n_def = 0
    for j in range(got.shape[0]):
        for i in range(s):
            g = got[j, i]
            if math.isinf(g):
                raise Violation('%s (%s): word %d sample %d is infinite (%r); undefined ratios must be NaN' % (metric, precision, j, i, g), case)
            if not defined[j, i]:
                n_undef += 1
                if regime == 'exact' and not math.isnan(g):
                    raise Violation('%s (%s): word %d sample %d is undefined by definition (single class / no residual degrees of freedom / zero variance) '
                                    'but the result is %r instead of NaN' % (metric, precision, j, i, g), case)
                continue
            t = tol[j, i] * factor
            if t > 0.05 * max(abs(val[j, i]), 1e-30) and t > 1e-9:
                ctx.count('skipped_ill_conditioned_cell')
                continue
            n_def += 1
            if not (abs(g - val[j, i]) <= t):
                raise Violation('%s (%s, %s): word %d sample %d: got %r, definition gives %r (tol %.3g, n=%d, %d declared classes)' % (
                    metric, precision, regime, j, i, g, val[j, i], t, n, len(classes)), case)
    ctx.count('cells_compared', n_def)
    ctx.count('cells_undefined', n_undef)
    # class structure labels
    unbalanced = empty = False
    cset = set(classes)
    for j in range(d2.shape[1]):
        vals, cnts = np.unique(d2[:, j], return_counts=True)
        keep = [c for v, c in zip(vals.tolist(), cnts.tolist()) if v in cset]
        if len(set(keep)) > 1:
            unbalanced = True
        if len(keep) < len(classes):
            empty = True
    klog = getattr(obj, '_verif_kernel_log', [])
    labels = ['metric:' + metric, 'prec:' + precision, 'regime:' + regime, 'tdtype:' + str(traces.dtype), 'ddtype:' + str(data.dtype),
              'classes:auto' if case['partitions'] is None else 'classes:explicit', 'nclasses:%s' % ('<=9' if len(classes) <= 9 else '<=64' if len(classes) <= 64 else '>64'),
              'batches:%d' % (len(case['cuts']) + 1), 'has_undefined' if n_undef else 'all_defined']
    if (d2 < 0).any():
        labels.append('negative_undeclared_values')
    if unbalanced:
        labels.append('unbalanced')
    if empty:
        labels.append('empty_declared_class')
    if len(set(klog)) > 1:
        labels.append('both_kernels')
    if data.ndim > 2:
        labels.append('word_ndim:%d' % (data.ndim - 1))
    if any(case.get('mid_computes') or []) or case.get('compute_twice'):
        labels.append('compute_before_final')
    labels.append('layout:%s/%s' % tuple(case.get('layout') or ('C', 'C')))
    if case.get('same_buffer'):
        labels.append('same_buffer_refilled')
    ctx.case(case, unbalanced or empty, labels)


def replay(ctx, case):
    check_case(ctx, case)


# ------------------------------------------------------------------------------------------------

def draw_labels(draw, g, n, W, classes, first_len, auto_max=None, extra_undeclared=False):
    """labels (n, W): per-word class balance drawn from a menu; with auto classes the first batch contains auto_max and nothing above"""
    k = len(classes)
    cols = []
    for w in range(W):
        bal = draw(st.sampled_from(['balanced', 'geometric', 'one_each', 'single', 'some_empty', 'random']))
        if bal == 'single':
            used = [classes[int(g.integers(k))]]
        elif bal == 'some_empty' and k > 1:
            m = int(g.integers(1, k))
            used = sorted(g.choice(classes, size=m, replace=False).tolist())
        else:
            used = list(classes)
        if bal == 'balanced':
            c = np.array([used[i % len(used)] for i in range(n)])
            g.shuffle(c)
        elif bal == 'geometric':
            p = np.array([0.5 ** min(i, 30) for i in range(len(used))])
            c = g.choice(used, size=n, p=p / p.sum())
        elif bal == 'one_each':
            # one trace per class (as far as n allows); the surplus goes to one class or is spread
            m = min(n, len(used))
            head = list(g.choice(used, size=m, replace=False))
            tail = [used[0]] * (n - m) if draw(st.booleans()) else list(g.choice(used, size=n - m))
            c = np.array(head + tail)
        else:
            c = g.choice(used, size=n)
        cols.append(np.asarray(c, dtype='int64'))
    lab = np.stack(cols, axis=1)
    if auto_max is not None:
        # automatic class set: the first batch must contain the chosen maximum and nothing above it
        lab[:first_len] = np.minimum(lab[:first_len], auto_max)
        lab[int(g.integers(first_len)), int(g.integers(W))] = auto_max
        if first_len < n and draw(st.booleans()):
            # later batches may carry values above the frozen class set: they belong to no class
            pos = int(g.integers(first_len, n))
            lab[pos, int(g.integers(W))] = min(255, len(auto_classes(auto_max)) + int(g.integers(0, 5)))
    return lab


@st.composite
def cases(draw, precision, int_dtype, float_dtype, large=False):
    metric = draw(st.sampled_from(METRICS))
    regime = draw(st.sampled_from(['exact', 'exact', 'rounded'])) if not large else 'exact'
    n = draw(st.one_of(st.integers(2, 12), st.integers(2, 60), st.integers(2, 200)))
    s = draw(st.integers(2, 6))
    wshape = draw(st.sampled_from([(1,), (2,), (3,), (4,), (2,), (3,), (2, 2)]))
    if large:
        # tens of thousands of traces in one or a few very large batches (sizes around powers of two and off them)
        n = draw(st.sampled_from([4097, 8193, 16385, 20000, 32769, 65537, 65537, 70001, 131073, 140000])) + draw(st.integers(-2, 2))
        s = draw(st.integers(1, 2))
        wshape = draw(st.sampled_from([(1,), (2,)]))
    W = int(np.prod(wshape))
    seed64 = draw(st.integers(0, 2 ** 63))
    g = np.random.Generator(np.random.PCG64(seed64))
    ncuts = draw(st.integers(0, 2)) if n > 2 else 0
    if large and draw(st.booleans()):
        ncuts = 0          # the whole set in ONE update
    cuts = sorted(set(draw(st.lists(st.integers(1, n - 1), min_size=ncuts, max_size=ncuts)))) if n > 1 else []
    same_buffer = False
    if n >= 4 and not large and draw(st.integers(0, 3)) == 0:
        m_ = draw(st.sampled_from([d_ for d_ in (2, 3, 4) if n % d_ == 0] or [1]))
        if m_ > 1:
            cuts = [n // m_ * i for i in range(1, m_)]
            same_buffer = True
    first_len = (cuts + [n])[0]
    mode = draw(st.sampled_from(['explicit', 'explicit', 'auto']))
    if mode == 'auto':
        amax = draw(st.sampled_from(AUTO_MAX))
        classes = auto_classes(amax)
        partitions = None
        lab_classes = list(range(0, amax + 1))
        labels = draw_labels(draw, g, n, W, lab_classes, first_len, auto_max=amax)
    else:
        # a fixed family of class lists: the per-list lookup function is compiled once per process (see vlib/dist.enable_lut_cache)
        k, start, stride = draw(st.sampled_from(CLASS_LISTS))
        classes = [start + stride * i for i in range(k)]
        partitions = classes
        labels = draw_labels(draw, g, n, W, classes, first_len)
    maxlab, minlab = int(labels.max()), int(labels.min())
    ddt = draw(st.sampled_from([d for d in gen.CLASS_DTYPES if maxlab <= np.iinfo(d).max and minlab >= np.iinfo(d).min]))
    if np.dtype(ddt).kind == 'i' and draw(st.integers(0, 2)) == 0 and (mode != 'auto' or first_len < n):
        # signed data may carry negative values: they are not classes (with automatic classes only after the first batch, which must be non-negative)
        lo_pos = first_len if mode == 'auto' else 0
        for _ in range(draw(st.integers(1, 4))):
            labels[int(g.integers(lo_pos, n)), int(g.integers(W))] = -int(g.choice([1, 2, 3, 5, 100]))
    data = labels.astype(ddt).reshape((n,) + tuple(wshape))
    B = _bound(n, precision)
    if regime == 'exact':
        tdt = draw(st.sampled_from([int_dtype, int_dtype, float_dtype]))
        if np.dtype(tdt).kind in 'iu':
            info = np.iinfo(tdt)
            lo, hi = max(-B, info.min), min(B, info.max)
        else:
            lo, hi = -B, B
        tcols = []
        for i in range(s):
            ck = draw(st.sampled_from(['random', 'random', 'random', 'constant', 'class_constant', 'two_valued', 'leak']))
            if ck == 'random':
                c = g.integers(lo, hi + 1, size=n)
            elif ck == 'constant':
                c = np.full(n, int(g.integers(lo, hi + 1)))
            elif ck == 'class_constant':
                w = int(g.integers(W))
                c = np.clip(labels[:, w] % (hi - lo + 1) + lo, lo, hi)
            elif ck == 'two_valued':
                a, b = int(g.integers(lo, hi + 1)), int(g.integers(lo, hi + 1))
                c = np.where(g.integers(0, 2, size=n) == 1, a, b)
            else:
                w = int(g.integers(W))
                c = np.clip(labels[:, w] % 7 + g.integers(-2, 3, size=n), lo, hi)
            tcols.append(c)
        traces = np.stack(tcols, axis=1).astype(tdt)
        if draw(st.integers(0, 5)) == 0:
            traces[:, 0] = 0          # a first sample that is exactly zero for every trace (zero padding, masked area)
    else:
        tdt = float_dtype
        offset = draw(st.sampled_from([0.0, 0.0, 1.0, 4.0] if precision == 'float32' else [0.0, 10.0, 1000.0]))
        base = g.normal(size=(n, s)) + offset
        w = int(g.integers(W))
        base[:, 0] += (labels[:, w] % 5) * draw(st.sampled_from([0.0, 0.5, 2.0]))
        # the same signal in another unit: the three metrics are ratios of variances and do not depend on it
        unit = draw(st.sampled_from([1.0, 1.0, 1e-9, 1e-5, 1e3]))
        traces = (base * unit).astype(tdt)
    nb = len(cuts) + 1
    kernels = [draw(st.integers(0, 1)) for _ in range(nb)] if len(classes) <= 9 else []
    return {'kind': 'partitioned', 'dist': metric, 'precision': precision, 'regime': regime, 'traces': traces, 'data': data,
            'cuts': cuts, 'partitions': partitions, 'kernels': kernels,
            'mid_computes': [draw(st.booleans()) for _ in range(nb)], 'compute_twice': draw(st.booleans()),
            'layout': [draw(st.sampled_from(gen.LAYOUTS)), draw(st.sampled_from(gen.LAYOUTS))], 'same_buffer': same_buffer}


def unit_generated(ctx, precision, int_dtype, float_dtype, n, large=False):
    hyp.run(ctx, cases(precision, int_dtype, float_dtype, large), check_case, n, shrink_budget=(60 if not large else 6) if ctx.tier == 'quick' else (400 if not large else 30))


GROUPS = [('uint8', 'float32'), ('int8', 'float64'), ('uint16', 'float32'), ('int16', 'float64'),
          ('int32', 'float32'), ('uint8', 'float64'), ('int16', 'float32'), ('int32', 'float64')]


def units(tier):
    q = tier == 'quick'
    us = []
    for gi, (idt, fdt) in enumerate(GROUPS):
        for precision in ('float32', 'float64'):
            us.append({'name': 'gen-%s-%s-%s' % (precision, idt, fdt), 'fn': 'unit_generated',
                       'kwargs': {'precision': precision, 'int_dtype': idt, 'float_dtype': fdt, 'n': 450 if q else 6000}})
    for precision, idt, fdt in (('float32', 'uint8', 'float32'), ('float64', 'int16', 'float64'), ('float64', 'uint8', 'float32'), ('float32', 'int8', 'float32')):
        us.append({'name': 'large-%s-%s' % (precision, idt), 'fn': 'unit_generated', 'kwargs': {'precision': precision, 'int_dtype': idt, 'float_dtype': fdt, 'n': 12 if q else 150, 'large': True}})
    return us


def selftest():
    return stats.selftest()


# dimensions added after the fourth and fifth round of seeded changes (DESIGN.md 8.3, 8.4); part of the rule reported in the evidence
RULE += ' Added with the fourth and fifth round of seeded changes: class lists with negative values; a first sample that is zero for every trace; arrays returned by earlier computes kept and compared at the end.'
