"""C03 — CPA and DPA results are Pearson correlation and difference of class means."""
import math

import numpy as np
from hypothesis import strategies as st
from hypothesis.extra import numpy as hnp

from vlib import dist, gen, hyp
from vlib.core import Violation, must
from vlib.oracles import stats

PROP = 'C03'
LEVEL = 'exploration'
TECHNIQUE = 'Hypothesis-generated trace/data matrices with a menu of degenerate columns (constant, two-valued, linear in a word, all-but-one equal), oracle = exact rational Pearson r / difference of means, NaN rule asserted in the exact regime'
RULE = ('cases = (kind in cpa|cpa_alt|dpa, precision, regime, n in 2..200, samples 1..8, word shape ()|(w)|(a,b)|(a,b,c), trace/data dtype, per-column kind) in 1-3 batches; '
        'exact regime: integer-valued inputs bounded so that all accumulators and n*Sxy are exactly representable; rounded regime: real-valued float inputs. '
        'Non-trivial = at least one undefined cell and one regular cell in the same call, or word ndim >= 2; distinct = digest of the case.')
LEVEL_TEXT = ('Every (word, sample) cell is compared with the definition computed in exact integers (two-pass float64 for real-valued data) with a first-order tolerance of the final formula; '
              'undefined cells must be NaN exactly (never inf / finite) in the exact regime; the result layout must be data.shape[1:] + (samples,). Exploration: inputs sampled, degenerate shapes forced by the column menu.')
LEVEL_NOTE = 'trusted: vlib/oracles/stats.py (self-tested against scipy at start)'
ASSUMPTIONS = ['the final result is also requested after earlier compute() calls (between batches and twice in a row): the statistic must still be the definition on all processed traces',
               'NaN-for-undefined is asserted only where zero variance is exactly zero (integer-valued inputs within the exactly-representable range), as the property states',
               'rounded regime: tolerance = first-order formula bound x number of traces; cells whose bound exceeds 1e-2 are skipped and counted']


def _bound(n, precision):
    if precision == 'float32':
        return max(1, int(min(math.sqrt(1.3e5 / n), 4096 / n)))
    return 2000


def _make(kind, precision):
    return dist.make(kind, precision=precision)


def check_stat(ctx, case):
    kind, precision, regime = case['dist'], case['precision'], case['regime']
    traces, data = case['traces'], case['data']
    n, s = traces.shape
    cuts = [0] + list(case['cuts']) + [n]
    obj = _make(kind, precision)
    fed = []
    held = []
    import warnings
    mid = list(case.get('mid_computes') or [])
    with warnings.catch_warnings():
        warnings.simplefilter('ignore')
        for bi, (a, b) in enumerate(zip(cuts, cuts[1:])):
            if b > a:
                lt, ld = case.get('layout') or ('C', 'C')
                if case.get('same_buffer') and all(y - x == cuts[1] - cuts[0] for x, y in zip(cuts, cuts[1:])):
                    # the caller keeps ONE preallocated pair of arrays and refills it in place before every update
                    if bi == 0:
                        tbuf, dbuf = np.array(traces[a:b], copy=True), np.array(data[a:b], copy=True)
                    else:
                        tbuf[...] = traces[a:b]
                        dbuf[...] = data[a:b]
                    must(case, '%s.update (same buffers refilled in place)' % kind, obj.update, tbuf, dbuf)
                else:
                    ta, da = gen.relayout(traces[a:b], lt), gen.relayout(data[a:b], ld)
                    fed.append((ta, da))
                    must(case, '%s.update' % kind, obj.update, ta, da)
                if bi < len(mid) and mid[bi]:
                    r = must(case, '%s.compute between batches' % kind, obj.compute)   # must not disturb what follows
                    held.append((bi, r, np.array(r, copy=True)))
                if case.get('copy_after') is not None and bi == int(case['copy_after'][0]):
                    # the analysis is forked at a checkpoint: a deep copy (or a pickle round trip) of the distinguisher goes on with the remaining batches
                    import copy
                    import pickle
                    obj = must(case, '%s of the %s distinguisher after batch %d' % (case['copy_after'][1], kind, bi + 1),
                               copy.deepcopy if case['copy_after'][1] == 'deepcopy' else (lambda o: pickle.loads(pickle.dumps(o))), obj)
        res = must(case, '%s.compute' % kind, obj.compute)
        for bi, r, snapshot in held:
            # a result obtained earlier stays what it was: it is the statistic of the batches processed up to then
            if not dist.same(r, snapshot):
                raise Violation('%s: the array returned by compute() after batch %d changed when later batches were processed / compute() was called again' % (kind, bi + 1), case)
        if case.get('compute_twice'):
            _first = np.array(res, copy=True)
            if isinstance(res, np.ndarray) and res.flags.writeable:
                res[...] = -12345.0            # the caller owns what compute() returned: overwriting it must not change the next answer
            res = _first
            res2 = must(case, '%s.compute (second call)' % kind, obj.compute)
            if not dist.same(res, res2):
                raise Violation('%s: two consecutive compute() calls without new data differ' % kind, case)
            res = res2
        if case.get('feed_again') and fed and not case.get('same_buffer'):
            # the very same array objects are then fed to a second distinguisher (a batch analysed twice): its result is the one checked below
            obj = _make(kind, precision)
            for ta, da in fed:
                must(case, '%s.update (arrays already fed to another distinguisher)' % kind, obj.update, ta, da)
            res = must(case, '%s.compute (second distinguisher fed the same arrays)' % kind, obj.compute)
    wshape = data.shape[1:] if data.ndim > 1 else (1,)
    if not isinstance(res, np.ndarray) or res.shape != tuple(wshape) + (s,):
        raise Violation('%s: result shape %s, expected data.shape[1:] + (samples,) = %s' % (kind, np.shape(res), tuple(wshape) + (s,)), case)
    eps = float(np.finfo(precision).eps)
    d2 = data.reshape(n, -1)
    if kind == 'dpa':
        val, tol, defined = stats.dpa(traces, d2, eps)
    else:
        val, tol, defined = stats.pearson(traces, d2, eps)
    got = np.asarray(res, dtype='float64').reshape(-1, s)
    n_undef = int((~defined).sum())
    n_def = int(defined.sum())
    factor = 1.0 if regime == 'exact' else float(n)
    for j in range(got.shape[0]):
        for i in range(s):
            g = got[j, i]
            if not defined[j, i]:
                if regime == 'exact' and not math.isnan(g):
                    raise Violation('%s (%s): word %d sample %d is undefined (constant sample/word or empty class) but the result is %r instead of NaN' % (kind, precision, j, i, g), case)
                continue
            t = tol[j, i] * factor
            if regime == 'rounded' and t > 1e-2 * (1 if kind != 'dpa' else max(1.0, abs(val[j, i]))):
                ctx.count('skipped_ill_conditioned_cell')
                continue
            if not (abs(g - val[j, i]) <= t):
                raise Violation('%s (%s, %s): word %d sample %d: got %r, definition gives %r (tol %.3g, n=%d)' % (kind, precision, regime, j, i, g, val[j, i], t, n), case)
            if kind != 'dpa' and abs(g) > 1 + t:
                raise Violation('%s: |r| = %r > 1' % (kind, g), case)
    nontrivial = (n_undef > 0 and n_def > 0) or data.ndim >= 3
    ctx.case(case, nontrivial, ['kind:' + kind, 'prec:' + precision, 'regime:' + regime, 'word_ndim:%d' % (data.ndim - 1),
                                'has_undefined' if n_undef else 'all_defined', 'batches:%d' % (len(cuts) - 1), 'tdtype:' + str(traces.dtype), 'layout:%s/%s' % tuple(case.get('layout') or ('C', 'C'))] + (['same_buffer_refilled'] if case.get('same_buffer') else []) + (['continued_on_a_%s' % case['copy_after'][1]] if case.get('copy_after') else []) + (['same_arrays_fed_to_a_second_distinguisher'] if case.get('feed_again') and not case.get('same_buffer') else []) + (['compute_before_final'] if any(mid) or case.get('compute_twice') else []))


def replay(ctx, case):
    check_stat(ctx, case)


BIG_SIZES = [4097, 8193, 16385, 20000, 32769, 65537, 131073, 150001]


@st.composite
def stat_cases(draw, kind, large=False):
    precision = draw(st.sampled_from(['float32', 'float64']))
    regime = draw(st.sampled_from(['exact', 'exact', 'rounded'])) if not large else 'exact'
    n = draw(st.one_of(st.integers(2, 12), st.integers(2, 200)))
    s = draw(st.integers(1, 8))
    wshape = draw(st.sampled_from([(), (1,), (2,), (3,), (2, 2), (3, 2), (2, 1, 2)]))
    if large:
        # tens of thousands of traces in one or a few very large batches (integer-valued, so the exact oracle applies)
        n = draw(st.sampled_from(BIG_SIZES)) + draw(st.integers(-2, 2))
        s = draw(st.integers(1, 2))
        wshape = draw(st.sampled_from([(), (2,), (2, 2)]))
    W = int(np.prod(wshape)) if wshape else 1
    B = _bound(n, precision)
    seed64 = draw(st.integers(0, 2 ** 63))
    g = np.random.Generator(np.random.PCG64(seed64))
    # data words
    if kind == 'dpa':
        dcols = []
        for w in range(W):
            ck = draw(st.sampled_from(['random', 'random', 'all0', 'all1', 'single1', 'single0']))
            c = g.integers(0, 2, size=n)
            if ck == 'all0':
                c[:] = 0
            elif ck == 'all1':
                c[:] = 1
            elif ck == 'single1':
                c[:] = 0
                c[int(g.integers(n))] = 1
            elif ck == 'single0':
                c[:] = 1
                c[int(g.integers(n))] = 0
            dcols.append(c)
        data = np.stack(dcols, axis=1).astype('uint8')
    else:
        ddt = draw(st.sampled_from(['uint8', 'uint16', 'int8', 'int32', 'int64', 'float32', 'float64']))
        hi = min(B, 127 if ddt == 'int8' else 255 if ddt == 'uint8' else B)
        dcols = []
        for w in range(W):
            ck = draw(st.sampled_from(['random', 'random', 'constant', 'two-valued']))
            if ck == 'random':
                c = g.integers(0, hi + 1, size=n)
            elif ck == 'constant':
                c = np.full(n, int(g.integers(0, hi + 1)))
            else:
                c = g.integers(0, 2, size=n) * int(g.integers(1, hi + 1))
            dcols.append(c)
        data = np.stack(dcols, axis=1).astype(ddt)
    # trace samples
    if regime == 'exact':
        tdt = draw(st.sampled_from(gen.TRACE_DTYPES))
        lo = 0 if np.dtype(tdt).kind == 'u' else -B
        hi = min(B, np.iinfo(tdt).max) if np.dtype(tdt).kind in 'iu' else B
        lo = max(lo, np.iinfo(tdt).min) if np.dtype(tdt).kind in 'iu' else lo
        tcols = []
        for i in range(s):
            ck = draw(st.sampled_from(['random', 'random', 'constant', 'two-valued', 'linear', 'all-but-one']))
            if ck == 'random':
                c = g.integers(lo, hi + 1, size=n)
            elif ck == 'constant':
                c = np.full(n, int(g.integers(lo, hi + 1)))
            elif ck == 'two-valued':
                c = np.where(g.integers(0, 2, size=n) == 1, int(g.integers(lo, hi + 1)), int(g.integers(lo, hi + 1)))
            elif ck == 'linear':
                w = int(g.integers(W))
                c = np.clip(np.asarray(data.reshape(n, -1)[:, w], dtype='int64'), lo, hi)
                if kind == 'dpa':
                    c = c * min(3, hi)
            else:
                c = np.full(n, int(g.integers(lo, hi + 1)))
                c[int(g.integers(n))] = int(g.integers(lo, hi + 1))
            tcols.append(c)
        traces = np.stack(tcols, axis=1).astype(tdt)
    else:
        tdt = draw(st.sampled_from(['float32', 'float64']))
        offset = draw(st.sampled_from([0.0, 0.0, 1.0, 4.0] if precision == 'float32' else [0.0, 10.0, 1000.0]))
        base = g.normal(size=(n, s)) + offset
        if kind != 'dpa':
            leak = data.reshape(n, -1)[:, int(g.integers(W))].astype('float64')
            sd = leak.std()
            if sd > 0:
                base[:, 0] += (leak - leak.mean()) / sd * draw(st.sampled_from([0.0, 0.5, 2.0]))
        # the same signal in another unit (amperes instead of ADC codes): Pearson's r does not depend on it, the difference of means scales with it
        unit = draw(st.sampled_from([1.0, 1.0, 1e-9, 1e-6, 1e3]))
        traces = (base * unit).astype(tdt)
    data = data.reshape((n,) + tuple(wshape)) if wshape else (data.reshape(n) if draw(st.booleans()) else data.reshape(n, 1))
    ncuts = draw(st.integers(0, 2))
    cuts = sorted(draw(st.lists(st.integers(1, n - 1), min_size=ncuts, max_size=ncuts))) if n > 1 else []
    same_buffer = False
    if n >= 4 and not large and draw(st.integers(0, 3)) == 0:
        # equal-sized batches (fed through one buffer that is refilled in place)
        m = draw(st.sampled_from([d_ for d_ in (2, 3, 4, 5) if n % d_ == 0] or [1]))
        if m > 1:
            cuts = [n // m * i for i in range(1, m)]
            same_buffer = True
    mid = [draw(st.booleans()) for _ in range(len(cuts) + 1)]
    # memory layout of what the caller passes: C order, Fortran order, strided and negative-stride views (values are the same)
    layout = [draw(st.sampled_from(gen.LAYOUTS)), draw(st.sampled_from(gen.LAYOUTS))]
    return {'kind': 'stat', 'dist': kind, 'precision': precision, 'regime': regime, 'traces': traces, 'data': data, 'cuts': cuts, 'layout': layout, 'same_buffer': same_buffer,
            'mid_computes': mid, 'compute_twice': draw(st.booleans()), 'feed_again': draw(st.integers(0, 3)) == 0,
            'copy_after': [draw(st.integers(0, len(cuts))), draw(st.sampled_from(['deepcopy', 'pickle']))] if draw(st.integers(0, 3)) == 0 else None}


def unit_generated(ctx, kind, n, large=False):
    hyp.run(ctx, stat_cases(kind, large), check_stat, n, shrink_budget=None if not large else 10)


def units(tier):
    q = tier == 'quick'
    us = []
    for kind in ('cpa', 'cpa_alt', 'dpa'):
        for i in range(4 if q else 10):
            us.append({'name': 'gen-%s-%d' % (kind, i), 'fn': 'unit_generated', 'kwargs': {'kind': kind, 'n': 300 if q else 8000}})
    for kind in ('cpa', 'cpa_alt', 'dpa'):
        us.append({'name': 'large-%s' % kind, 'fn': 'unit_generated', 'kwargs': {'kind': kind, 'n': 20 if q else 300, 'large': True}})
    return us


def selftest():
    return stats.selftest()


# dimensions added after the fourth and fifth round of seeded changes (DESIGN.md 8.3, 8.4); part of the rule reported in the evidence
RULE += ' Added with the fourth and fifth round of seeded changes: the same arrays fed to a second distinguisher (its result is the one compared); arrays returned by earlier computes kept and compared at the end; sets of 131 073 / 150 001 traces.'
