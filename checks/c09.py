"""C09 — t-test equals the Welch statistic whatever the batching and thread timing."""
import math
from fractions import Fraction
import threading
import time

import numpy as np
from hypothesis import strategies as st
from hypothesis.extra import numpy as hnp

import scared
from vlib import dist, gen, hyp
from vlib.core import Violation, must
from vlib.oracles import stats

PROP = 'C09'
LEVEL = 'exploration'
TECHNIQUE = 'Hypothesis-generated trace-set pairs, batch sizes, frames, preprocesses and run() histories; harness-owned schedule of the two accumulator threads (gate preprocess driven by a generated token sequence), generated numba thread counts, injected faults; oracle = two-pass/exact Welch statistic'
RULE = ('cases = (two trace sets n1,n2 in 1..80 per run, 1-3 run() calls, dtype, frame, row-wise preprocess, batch size, precision, numba threads in {1,2,5,16}, schedule over {0,1} or per-batch sleeps or free-running, optional fault at (thread, batch)); '
        'non-trivial = both sets have >=2 batches and the realised start order interleaves the two threads, or a fault injected after the first batch of its thread; distinct = digest of the case.')
LEVEL_TEXT = ('The order in which the two accumulator threads start their batches is owned by the harness (a gate preprocess releases batches following a generated token sequence and records the realised order), '
              'so interleavings are generated and shrunk like any other input; the result is compared with an independent Welch statistic and, in the exact regime, bit-for-bit between two different schedules of the same data. '
              'Faults raised inside one thread must surface from run(). Exploration: instruction-level interleavings inside the numba kernel are only sampled (thread counts, repeated runs).')
LEVEL_NOTE = 'trusted: the gate only delays threads (soft: it gives way after 0.3 s so it cannot deadlock), vlib/oracles/stats.welch_t (self-tested against scipy)'
ASSUMPTIONS = ['instruction-level interleavings inside the parallel numba kernel are sampled (numba thread count 1/2/5/16), not enumerated',
               'entries whose denominator var1/n1+var2/n2 is zero are not asserted', 'rounded regime: tolerance = first-order bound x total number of traces']


class _Boom(Exception):
    pass


class _Gate:
    """preprocess that sequences the batches of the two accumulator threads"""

    def __init__(self, analysis, case):
        self.analysis = analysis
        self.mode = case['sched_mode']
        self.tokens = list(case['schedule'])
        self.sleeps = list(case.get('sleeps', []))
        self.fault = case.get('fault')
        self.cond = threading.Condition()
        self.order = []
        self.batch_no = [0, 0]
        self.done = [False, False]
        self.waited_out = 0
        self.__name__ = 'gate'

    def who(self):
        th = threading.current_thread()
        for i, a in enumerate(self.analysis.accumulators):
            if a is th:
                return i
        return None

    def __call__(self, traces):
        i = self.who()
        if i is None:
            return traces          # main thread (trace_size probe)
        b = self.batch_no[i]
        if self.mode == 'tokens':
            with self.cond:
                deadline = time.time() + 0.3
                while self.tokens and self.tokens[0] != i and not self.done[1 - i]:
                    left = deadline - time.time()
                    if left <= 0:
                        self.waited_out += 1
                        break
                    self.cond.wait(left)
                if self.tokens and self.tokens[0] == i:
                    self.tokens.pop(0)
                elif self.tokens and i in self.tokens:
                    self.tokens.remove(i)
                self.order.append(i)
                self.cond.notify_all()
        else:
            if self.mode == 'sleeps' and self.sleeps:
                time.sleep(self.sleeps[(2 * b + i) % len(self.sleeps)] / 1000.0)
            with self.cond:
                self.order.append(i)
        self.batch_no[i] = b + 1
        if self.fault is not None and self.fault[0] == i and self.fault[1] == b:
            with self.cond:
                self.done[i] = True
                self.cond.notify_all()
            raise _Boom('injected failure in thread %d batch %d' % (i, b))
        return traces

    def thread_finished(self, i):
        with self.cond:
            self.done[i] = True
            self.cond.notify_all()


def _row_preprocess(name):
    if name == 'square':
        return scared.preprocesses.square
    if name == 'topower3':
        return scared.preprocesses.ToPower(3, precision='float64')
    if name == 'cumsum':
        # a preprocess that mixes the samples of a trace: it must see the samples of the frame, in the order of the frame
        @scared.preprocess
        def cumsum(traces):
            return np.cumsum(traces.astype('float64'), axis=1)
        return cumsum
    return None


def _apply_oracle_pre(x, name, frame):
    x = x[:, frame] if frame is not None else x
    if name == 'square':
        return x.astype(np.result_type(x.dtype, 'float32')) ** 2
    if name == 'topower3':
        return x.astype('float64') ** 3
    if name == 'cumsum':
        return np.cumsum(x.astype('float64'), axis=1)
    return x


def _run_once(case, schedule_override=None):
    import numba
    c = dict(case)
    if schedule_override is not None:
        c['schedule'] = schedule_override
    analysis = scared.TTestAnalysis(precision=case['precision'])
    gates = []
    results = []
    raised = None
    effective, pending, refused_seen, hand_pending = [], [], [], []
    base_threads = threading.active_count()
    numba.set_num_threads(min(case['nthreads'], numba.config.NUMBA_NUM_THREADS))
    scared.set_batch_size(case['batch_size'])
    try:
        for run_idx, run in enumerate(case['runs']):
            rk = (case.get('refused_runs') or {}).get(str(run_idx))
            if rk:
                # a run() on two sets whose sample dtype the accumulation kernel has no version for: every batch of it is refused,
                # run() must raise, and the analysis goes on afterwards as if that run had never been asked for
                w1, w2 = run['set1'].astype(rk), run['set2'].astype(rk)
                try:
                    import warnings
                    with warnings.catch_warnings():
                        warnings.simplefilter('ignore')
                        analysis.run(scared.TTestContainer(dist.ram_ths(samples=w1), dist.ram_ths(samples=w2), frame=case['frame']))
                except Exception:  # refused, as expected
                    refused_seen.append(run_idx)
                    t_end = time.time() + 60.0
                    while threading.active_count() > base_threads and time.time() < t_end:
                        time.sleep(0.005)
                else:
                    # accepted by the code: these traces are part of the history then
                    pending.append((w1.astype(w1.dtype.newbyteorder('=')), w2.astype(w2.dtype.newbyteorder('='))))      # same values, native byte order
            if hand_pending:
                pending.extend(hand_pending)
                del hand_pending[:]
            ths1 = dist.ram_ths(samples=run['set1'])
            ths2 = dist.ram_ths(samples=run['set2'])
            gate = _Gate(analysis, c if run_idx == 0 else dict(c, fault=None))
            gates.append(gate)
            pre = [gate]
            rp = _row_preprocess(case['preprocess'])
            if rp is not None:
                pre.append(rp)
            cont = scared.TTestContainer(ths1, ths2, frame=case['frame'], preprocesses=pre)
            # let the gate know when a thread is done, so the other one is never kept waiting
            orig_update = scared.TTestThreadAccumulator.run

            def wrapped_run(self_acc, container=None, _g=gate):
                try:
                    return orig_update(self_acc, container)
                finally:
                    k = _g.who()
                    if k is not None:
                        _g.thread_finished(k)
            scared.TTestThreadAccumulator.run = wrapped_run
            try:
                import warnings
                with warnings.catch_warnings():
                    warnings.simplefilter('ignore')
                    analysis.run(cont)
            except _Boom as e:
                raised = e
                break
            finally:
                scared.TTestThreadAccumulator.run = orig_update
            results.append(np.array(analysis.result, copy=True))
            hf = (case.get('hand_fed') or {}).get(str(run_idx))
            if hf is not None and run_idx + 1 < len(case['runs']):
                # between two runs one accumulator is fed by hand from the main thread (its documented run(container) entry point): these traces
                # belong to that set from then on
                extra = np.asarray(hf['set'])
                pre_h = [p_ for p_ in [_row_preprocess(case['preprocess'])] if p_ is not None]
                analysis.accumulators[int(hf['acc'])].run(scared.Container(dist.ram_ths(samples=extra), frame=case['frame'], preprocesses=pre_h))
                empty = extra[:0]
                hand_pending.append((extra, empty) if int(hf['acc']) == 0 else (empty, extra))
            if pending:
                # same dtype as the run's own sets whenever possible: the oracle applies the preprocess in the arithmetic of that dtype
                effective.append({'set1': [p[0] for p in pending] + [run['set1']], 'set2': [p[1] for p in pending] + [run['set2']]})
                del pending[:]
            else:
                effective.append(run)
    finally:
        scared.set_batch_size(None)
    analysis._verif_effective_runs = effective
    analysis._verif_refused_seen = refused_seen
    return analysis, gates, results, raised


def check_ttest(ctx, case):
    base_threads = threading.active_count()
    fault = case.get('fault')
    analysis, gates, results, raised = must(case, 'TTestAnalysis.run', _run_once, case)
    eps = float(np.finfo(case['precision']).eps)
    bs = case['batch_size']
    if fault is not None:
        # the fault is injected in the first run() only if that thread has such a batch
        n_fault_thread = len(case['runs'][0]['set1' if fault[0] == 0 else 'set2'])
        nb = math.ceil(n_fault_thread / bs)
        if fault[1] < nb:
            if raised is None:
                raise Violation('a failure in accumulator thread %d (batch %d) was not re-raised by run(): a result was produced instead' % (fault[0], fault[1]), case)
            # run() releases the thread-state lock of its accumulators, so the surviving thread may still be finishing its
            # current batch: wait for it (so that no thread outlives the case), but its timing is not part of the property.
            t_end = time.time() + 60.0
            while threading.active_count() > base_threads and time.time() < t_end:
                time.sleep(0.01)
            if threading.active_count() > base_threads:
                ctx.count('accumulator_thread_slow_to_stop_after_fault')
            clean = dict(case)
            clean['fault'] = None
            clean['runs'] = case['runs'][:1]
            a2, g2, r2, raised2 = must(case, 'fresh TTestAnalysis after a failed one', _run_once, clean)
            _compare(ctx, clean, a2, r2, eps, 'fresh analysis after a failed run: ')
            ctx.case(case, fault[1] >= 1, ['fault', 'fault_after_first_batch' if fault[1] >= 1 else 'fault_first_batch', 'threads:%d' % case['nthreads']])
            return
        if raised is not None:
            raise Violation('run() raised although the fault position was never reached', case)
    elif raised is not None:
        raise Violation('run() raised without injected fault', case)
    _compare(ctx, dict(case, runs=analysis._verif_effective_runs), analysis, results, eps, 'after refused run(s) before run %s: ' % analysis._verif_refused_seen if analysis._verif_refused_seen else '')
    if case.get('refused_runs') and not analysis._verif_refused_seen:
        ctx.count('refused_run_was_accepted')
    # schedule independence: same data under another schedule must be bit-identical in the exact regime
    labels = (['refused_run_in_history'] if analysis._verif_refused_seen else []) + (['accumulator_fed_by_hand_between_runs'] if case.get('hand_fed') else [])
    if case['regime'] == 'exact' and case['sched_mode'] == 'tokens' and case.get('alt_schedule') is not None and fault is None:
        a2, g2, r2, _ = must(case, 'TTestAnalysis.run (alternative schedule)', _run_once, case, case['alt_schedule'])
        for k, (x, y) in enumerate(zip(results, r2)):
            if not dist.same(x, y):
                raise Violation('result of run %d depends on how the two threads interleave (orders %s vs %s)' % (k, gates[k].order, g2[k].order), case)
        labels.append('two_schedules')
    order = gates[0].order
    switches = sum(1 for a, b in zip(order, order[1:]) if a != b)
    n1, n2 = len(case['runs'][0]['set1']), len(case['runs'][0]['set2'])
    both_multi = math.ceil(n1 / bs) >= 2 and math.ceil(n2 / bs) >= 2
    ctx.note_max('max_thread_switches', switches)
    ctx.count('gate_timeouts', sum(g.waited_out for g in gates))
    ctx.case(case, both_multi and switches >= 2, labels + ['sched:' + case['sched_mode'], 'runs:%d' % len(case['runs']), 'threads:%d' % case['nthreads'],
             'interleaved' if switches >= 2 else 'not_interleaved', 'regime:' + case['regime'], 'prec:' + case['precision'],
             'tail_batch_of_1' if (n1 % bs == 1 or n2 % bs == 1) else 'no_tail_of_1'])


def _compare(ctx, case, analysis, results, eps, prefix):
    frame = case['frame']
    x1 = x2 = None
    total = 0
    for k, run in enumerate(case['runs'][:len(results)]):
        # a run may consist of several pieces (traces accepted outside the regular runs come first): the preprocess is applied to each piece
        # in the arithmetic of ITS dtype, as the library does batch by batch
        a = np.concatenate([_apply_oracle_pre(p_, case['preprocess'], frame) for p_ in (run['set1'] if isinstance(run['set1'], list) else [run['set1']])])
        b = np.concatenate([_apply_oracle_pre(p_, case['preprocess'], frame) for p_ in (run['set2'] if isinstance(run['set2'], list) else [run['set2']])])
        x1 = a if x1 is None else np.concatenate([x1, a])
        x2 = b if x2 is None else np.concatenate([x2, b])
        total = len(x1) + len(x2)
        val, tol, defined = stats.welch_t(x1, x2, eps)
        got = np.asarray(results[k], dtype='float64')
        if got.shape != val.shape:
            raise Violation(prefix + 'result shape %s, expected %s' % (got.shape, val.shape), case)
        factor = 1.0 if case['regime'] == 'exact' else float(total)
        for i in range(len(val)):
            if not defined[i]:
                continue
            t = tol[i] * factor
            if t > 1e-2 * max(1.0, abs(val[i])):
                ctx.count('skipped_ill_conditioned_cell')
                continue
            if not abs(got[i] - val[i]) <= t:
                raise Violation(prefix + 'run %d sample %d: t = %r, Welch statistic over all traces is %r (tol %.3g, n1=%d n2=%d)' % (k, i, got[i], val[i], t, len(x1), len(x2)), case)
    acc = analysis.accumulators
    for a, x, name in ((acc[0], x1, 'set 1'), (acc[1], x2, 'set 2')):
        if a.processed_traces != len(x):
            raise Violation(prefix + 'accumulator of %s has processed_traces=%s, expected %d' % (name, a.processed_traces, len(x)), case)
        xf = x.astype('float64')
        if stats.is_integral(x):
            # exact integer arithmetic (numpy's strided axis-0 reductions are naive sums: their error grows with the number of traces)
            xo = stats._obj(x)
            n_ = len(xo)
            S_, Q_ = xo.sum(0), (xo * xo).sum(0)
            m = np.array([float(Fraction(int(a_), n_)) for a_ in S_])
            v = np.array([float(Fraction(n_ * int(q_) - int(a_) ** 2, n_ * n_)) for a_, q_ in zip(S_, Q_)])
        else:
            xt = np.ascontiguousarray(xf.T).astype(np.longdouble)
            m = np.asarray(xt.mean(1), dtype='float64')
            v = np.asarray(((xt - xt.mean(1, keepdims=True)) ** 2).mean(1), dtype='float64')
        scale = (xf ** 2).mean(0) + 1e-300
        factor = 1.0 if case['regime'] == 'exact' else float(len(x))
        if not np.all(np.abs(np.asarray(a.mean, dtype='float64') - m) <= 64 * eps * factor * (np.abs(xf).mean(0) + 1e-300)):
            raise Violation(prefix + 'accumulator mean of %s differs from the mean of all its traces' % name, case)
        if not np.all(np.abs(np.asarray(a.var, dtype='float64') - v) <= 64 * eps * factor * scale):
            raise Violation(prefix + 'accumulator var of %s differs from the population variance of all its traces' % name, case)


def replay(ctx, case):
    check_ttest(ctx, case)


BIG_SIZES = [4097, 8193, 16385, 16400, 20000, 32769, 40000, 65537]


@st.composite
def ttest_cases(draw, large=False):
    precision = draw(st.sampled_from(['float32', 'float64']))
    regime = draw(st.sampled_from(['exact', 'exact', 'rounded']))
    nruns = draw(st.sampled_from([1, 1, 2, 3])) if not large else 1
    L = draw(st.integers(1, 6)) if not large else draw(st.integers(1, 2))
    pre = draw(st.sampled_from([None, None, 'square', 'topower3', 'cumsum'])) if not large else None
    bs = draw(st.integers(1, 25))
    sizes = [(draw(st.one_of(st.integers(1, 12), st.integers(1, 80))), draw(st.one_of(st.integers(1, 12), st.integers(1, 80)))) for _ in range(nruns)]
    if large:
        # trace sets of tens of thousands of traces processed in very large batches (sizes around powers of two and off them)
        a_ = draw(st.sampled_from(BIG_SIZES)) + draw(st.integers(-2, 2))
        b_ = draw(st.sampled_from(BIG_SIZES + [100, 5000])) + draw(st.integers(0, 3))
        sizes = [(a_, b_) if draw(st.booleans()) else (b_, a_)]
        bs = draw(st.sampled_from([max(a_, b_) + 7, 16384, 25000, 30000, 3000]))
    elif draw(st.booleans()):
        # make tail batches of exactly one trace likely
        sizes[0] = (bs * draw(st.integers(1, 3)) + 1, sizes[0][1])
    ntot = sum(a + b for a, b in sizes)
    power = {None: 1, 'square': 2, 'topower3': 3, 'cumsum': 2}[pre]
    if precision == 'float32':
        B = max(1, int((2 ** 22 / ntot) ** (1.0 / (2 * power))))
    else:
        B = 40
    seed64 = draw(st.integers(0, 2 ** 63))
    g = np.random.Generator(np.random.PCG64(seed64))
    if regime == 'exact':
        dt = draw(st.sampled_from(['uint8', 'int8', 'int16', 'int32', 'float32', 'float64']))
        lo = 0 if np.dtype(dt).kind == 'u' else -B
        hi = min(B, 127) if dt == 'int8' else B
        lo = max(lo, -127)
        mk = lambda n, shift: np.clip(g.integers(lo, hi + 1, size=(n, L)) + shift, lo, hi).astype(dt)   # noqa
    else:
        dt = draw(st.sampled_from(['float32', 'float64']))
        mk = lambda n, shift: (g.normal(size=(n, L)) + shift * 0.5).astype(dt)   # noqa
    runs = [{'set1': mk(a, 0), 'set2': mk(b, draw(st.sampled_from([0, 1])))} for a, b in sizes]
    if regime == 'exact' and draw(st.integers(0, 4)) == 0:
        runs[0]['set1'][:, 0] = runs[0]['set1'][0, 0]      # a constant column
    frame = draw(st.sampled_from([None, None, 'slice', 'list', 'range'] + (['mask'] if L >= 2 else [])))
    fk_ = frame
    if fk_ == 'mask':
        # a boolean mask selecting at least two samples (a mask with a single True is refused: the trace reader hands back a scalar per trace)
        frame = np.array([draw(st.booleans()) for _ in range(L)])
        for i_ in draw(st.permutations(list(range(L))))[:2]:
            frame[i_] = True
    if fk_ == 'range':
        a = draw(st.integers(0, L - 1))
        frame = range(a, draw(st.integers(a + 1, L)), draw(st.sampled_from([1, 2, 3])))
    if fk_ == 'slice':
        a = draw(st.integers(0, L - 1))
        frame = slice(a, draw(st.integers(a + 1, L)), draw(st.sampled_from([1, 2])))
    elif fk_ == 'list':
        frame = draw(st.lists(st.integers(0, L - 1), min_size=1, max_size=4))
    mode = draw(st.sampled_from(['tokens', 'tokens', 'tokens', 'sleeps', 'free'])) if not large else 'free'
    nb = sum(math.ceil(a / bs) + math.ceil(b / bs) for a, b in sizes[:1])
    schedule = draw(st.lists(st.integers(0, 1), min_size=0, max_size=min(nb, 24))) if mode == 'tokens' else []
    alt = draw(st.lists(st.integers(0, 1), min_size=0, max_size=min(nb, 24))) if mode == 'tokens' and draw(st.booleans()) else None
    sleeps = draw(st.lists(st.integers(0, 3), min_size=1, max_size=6)) if mode == 'sleeps' else []
    fault = None
    if not large and draw(st.integers(0, 4)) == 0:
        fault = (draw(st.integers(0, 1)), draw(st.integers(0, 4)))
    hand_fed = {}
    if not large and fault is None and nruns >= 2 and draw(st.integers(0, 3)) == 0:
        hand_fed = {str(draw(st.integers(0, nruns - 2))): {'acc': draw(st.integers(0, 1)), 'set': mk(draw(st.integers(1, 12)), 0)}}
    refused_runs = {}
    if not large and fault is None and draw(st.integers(0, 3)) == 0:
        refused_runs = {str(draw(st.integers(0, nruns - 1))): draw(st.sampled_from(['float16', '>i2', '>f4', 'complex64']))}
    return {'kind': 'ttest', 'hand_fed': hand_fed, 'refused_runs': refused_runs, 'precision': precision, 'regime': regime, 'runs': runs, 'batch_size': bs, 'frame': frame, 'preprocess': pre,
            'nthreads': draw(st.sampled_from([1, 2, 5, 16])), 'sched_mode': mode, 'schedule': schedule, 'alt_schedule': alt, 'sleeps': sleeps, 'fault': fault}


def unit_generated(ctx, n, large=False):
    hyp.run(ctx, ttest_cases(large), check_ttest, n, shrink_budget=(150 if not large else 8) if ctx.tier == 'quick' else (1500 if not large else 40))


def units(tier):
    q = tier == 'quick'
    us = [{'name': 'gen-%d' % i, 'fn': 'unit_generated', 'kwargs': {'n': 120 if q else 5000}, 'threads': 16} for i in range(12)]
    us += [{'name': 'large-sets-%d' % i, 'fn': 'unit_generated', 'kwargs': {'n': 8 if q else 120, 'large': True}, 'threads': 16} for i in range(4)]
    return us


def selftest():
    return stats.selftest()


# dimensions added after the fourth and fifth round of seeded changes (DESIGN.md 8.3, 8.4); part of the rule reported in the evidence
RULE += ' Added with the fourth and fifth round of seeded changes: a run() on sets of a dtype the accumulation kernel refuses (float16, complex64, >i2, >f4) placed before a run of the history.'
