"""C15 — leakage models and discriminants compute their definitions on every value."""
import math

import numpy as np
from hypothesis import strategies as st
from hypothesis.extra import numpy as hnp

import scared
from vlib import gen, hyp
from vlib.core import Violation, must

PROP = 'C15'
LEVEL = 'exploration'
TECHNIQUE = 'exhaustive enumeration of all uint8/uint16 values and every byte lane of uint32/uint64 for HammingWeight; Hypothesis-generated shapes/axes/nb_words and NaN-laden float arrays; oracle = int.bit_count / pure-Python lane reductions'
RULE = ('HammingWeight: every uint8 and uint16 value, every byte lane x 256 values of uint32/uint64 with random other lanes, random values; generated n-D shapes x axis x nb_words; '
        'Monobit(b)/Value on generated arrays; discriminants on generated float arrays (>=2-D) with NaN, inf-free, all-NaN lanes. '
        'Non-trivial = nb_words>1 or ndim>1 or axis != last or NaN present (exhaustive value sweeps count as non-trivial); distinct = digest of the case.')
LEVEL_TEXT = ('The 8/16-bit value spaces and all byte lanes of the wider types are covered exhaustively in every run (a wrong table entry is hit with certainty); '
              'shape/axis/grouping behaviour and the NaN-ignoring reductions are explored with Hypothesis against pure-Python oracles. Exploration for the n-D part.')
LEVEL_NOTE = 'trusted: Python int.bit_count, math.fsum and max/min over the non-NaN entries of a lane'
ASSUMPTIONS = ['Monobit(b) is exercised for 2**b representable in the data dtype (numpy refuses the mask otherwise: clean rejection)',
               'a 1-D input to a discriminant reduces to a scalar, which the decorator refuses (ValueError): outside the property',
               'nansum/abssum compared with tolerance len*eps*sum|x| (summation order is unspecified); max family compared exactly']

UDT = ['uint8', 'uint16', 'uint32', 'uint64']


def _hw_ref(a):
    return np.vectorize(lambda v: int(v).bit_count(), otypes=['int64'])(a) if a.size else np.zeros(a.shape, dtype='int64')


def check_hw(ctx, case):
    data, axis, k = case['data'], case['axis'], case['nb_words']
    d0 = data.copy()
    model = scared.HammingWeight(nb_words=k, expected_dtype=data.dtype)
    if data.size and gen.layout_of(case, 5) != 'C':
        # the model object is reused: first applied to data with another length along the reduced axis (longer, then shorter)
        ax_ = data.ndim - 1 if axis is None or axis == -1 else axis
        longer = np.concatenate([data, data], axis=ax_)
        shorter = np.take(data, list(range(max(1, data.shape[ax_] - 2))), axis=ax_)
        for other in (longer, shorter):
            try:
                model(other, **({} if axis is None else {'axis': axis}))
            except Exception:
                pass
    out, _hist = gen.pure_call(case, 'HammingWeight(nb_words=%d)(data %s %s, axis=%s)' % (k, data.dtype, data.shape, axis), model, [gen.L(case, data)], {} if axis is None else {'axis': gen.npint(case, axis) if axis >= 0 else axis})
    ax = data.ndim - 1 if axis is None or axis == -1 else axis
    hw = _hw_ref(data)
    if k > 1:
        m = data.shape[ax] // k
        hw = np.moveaxis(hw, ax, 0)[:m * k]
        hw = hw.reshape((m, k) + hw.shape[1:]).sum(axis=1)
        hw = np.moveaxis(hw, 0, ax)
    if np.shape(out) != hw.shape or not np.array_equal(np.asarray(out).astype('int64'), hw):
        raise Violation('HammingWeight(nb_words=%d) on %s%s axis=%s differs from the population count definition' % (k, data.dtype, data.shape, axis), case)
    if not np.array_equal(data, d0):
        raise Violation('HammingWeight modified its input', case)
    ctx.case(case, case.get('sweep', False) or k > 1 or data.ndim > 1, ['hw:' + str(data.dtype), 'nb_words>1' if k > 1 else 'nb_words=1',
             'axis:last' if ax == data.ndim - 1 else 'axis:other', 'ndim:%d' % data.ndim] + (['non-dividing'] if k > 1 and data.shape[ax] % k else []))


def check_mono(ctx, case):
    data, b = case['data'], case['bit']
    d0 = data.copy()
    if case['model'] == 'value':
        out = must(case, 'Value()', scared.Value(), gen.L(case, data), **({} if case['axis'] is None else {'axis': case['axis']}))
        if out.shape != data.shape or not np.array_equal(out, data, equal_nan=data.dtype.kind == 'f'):
            raise Violation('Value() does not return the data unchanged', case)
    else:
        out = must(case, 'Monobit(%d) on %s' % (b, data.dtype), scared.Monobit(b), gen.L(case, data), **({} if case['axis'] is None else {'axis': case['axis']}))
        exp = np.vectorize(lambda v: (int(v) >> b) & 1, otypes=['int64'])(data) if data.size else np.zeros(data.shape, dtype='int64')
        if np.shape(out) != exp.shape or not np.array_equal(np.asarray(out).astype('int64'), exp):
            raise Violation('Monobit(%d) on %s%s is not bit %d of every value' % (b, data.dtype, data.shape, b), case)
    if not np.array_equal(data, d0, equal_nan=data.dtype.kind == 'f'):
        raise Violation('model modified its input', case)
    ctx.case(case, data.ndim > 1, ['model:' + case['model'], 'dtype:' + str(data.dtype)])


DISC = {'nanmax': scared.nanmax, 'maxabs': scared.maxabs, 'opposite_min': scared.opposite_min, 'nansum': scared.nansum, 'abssum': scared.abssum}


def check_disc(ctx, case):
    name, data, axis = case['disc'], case['data'], case['axis']
    d0 = data.copy()
    import warnings
    with warnings.catch_warnings():
        warnings.simplefilter('ignore')
        out = must(case, '%s(axis=%s) on %s' % (name, axis, data.shape), DISC[name], gen.L(case, data), **({} if axis is None else {'axis': gen.npint(case, axis) if axis >= 0 else axis}))
    ax = data.ndim - 1 if axis is None or axis == -1 else axis
    moved = np.moveaxis(data, ax, -1)
    exp_shape = moved.shape[:-1]
    if np.shape(out) != exp_shape:
        raise Violation('%s: result shape %s, expected %s (input %s reduced on axis %d)' % (name, np.shape(out), exp_shape, data.shape, ax), case)
    eps = np.finfo(data.dtype).eps
    has_nan = False
    for idx in np.ndindex(*exp_shape):
        lane = [float(v) for v in moved[idx]]
        vals = [v for v in lane if not math.isnan(v)]
        has_nan = has_nan or len(vals) != len(lane)
        got = float(out[idx])
        if name in ('nanmax', 'maxabs', 'opposite_min'):
            if not vals:
                ok = math.isnan(got)
                e = float('nan')
            else:
                e = max(vals) if name == 'nanmax' else (max(abs(v) for v in vals) if name == 'maxabs' else -min(vals))
                ok = got == e
        else:
            terms = vals if name == 'nansum' else [abs(v) for v in vals]
            if any(math.isinf(v) for v in terms):
                # infinities are values, not missing entries: the sum is +-inf, or NaN when both signs meet
                e = float('nan') if (float('inf') in terms and float('-inf') in terms) else (float('inf') if float('inf') in terms else float('-inf'))
                ok = (math.isnan(got) and math.isnan(e)) or got == e
            else:
                e = math.fsum(terms)
                tol = (len(terms) + 1) * eps * math.fsum(abs(v) for v in terms) + 1e-300
                ok = abs(got - e) <= tol
        if not ok:
            raise Violation('%s axis=%s lane %s: got %r, definition over non-NaN entries gives %r' % (name, axis, idx, got, e), case)
    if not np.array_equal(data, d0, equal_nan=True):
        raise Violation('discriminant modified its input', case)
    ctx.case(case, has_nan or ax != data.ndim - 1, ['disc:' + name, 'has_nan' if has_nan else 'no_nan'] + (['has_inf'] if np.isinf(data).any() else []) + ['axis:last' if ax == data.ndim - 1 else 'axis:other', 'ndim:%d' % data.ndim])


def replay(ctx, case):
    {'hw': check_hw, 'mono': check_mono, 'disc': check_disc}[case['kind']](ctx, case)


# ------------------------------------------------------------------------------------------------
def unit_sweeps(ctx, n_random):
    def cases():
        g = gen.rng(ctx.seed, 'sweeps')
        yield {'kind': 'hw', 'data': np.arange(256, dtype='uint8').reshape(16, 16), 'axis': None, 'nb_words': 1, 'sweep': True}
        for i in range(0, 65536, 4096):
            yield {'kind': 'hw', 'data': np.arange(i, i + 4096, dtype='uint16').reshape(64, 64), 'axis': None, 'nb_words': 1, 'sweep': True}
        for dt, lanes in (('uint32', 4), ('uint64', 8)):
            for lane in range(lanes):
                for rep in range(3):
                    other = g.integers(0, 2 ** 63, size=256, dtype='uint64') if rep else np.zeros(256, dtype='uint64')
                    if rep == 2:
                        other = ~other
                    mask = np.uint64(0xFF) << np.uint64(8 * lane)
                    v = (other & ~mask) | (np.arange(256, dtype='uint64') << np.uint64(8 * lane))
                    if dt == 'uint32':
                        v = v & np.uint64(0xFFFFFFFF)
                    yield {'kind': 'hw', 'data': v.astype(dt).reshape(4, 64), 'axis': None, 'nb_words': 1, 'sweep': True}
            for _ in range(n_random):
                v = g.integers(0, 2 ** 63, size=1024, dtype='uint64') * np.uint64(2) + g.integers(0, 2, size=1024, dtype='uint64')
                yield {'kind': 'hw', 'data': v.astype(dt) if dt == 'uint64' else (v >> np.uint64(13)).astype('uint32'), 'axis': None, 'nb_words': 1, 'sweep': True}
            yield {'kind': 'hw', 'data': np.array([0, 1, np.iinfo(dt).max, np.iinfo(dt).max - 1, 1 << (8 * lanes - 1)], dtype=dt), 'axis': None, 'nb_words': 1, 'sweep': True}
    hyp.run_enum(ctx, cases(), check_hw)


@st.composite
def hw_cases(draw):
    dt = draw(st.sampled_from(UDT))
    shape = tuple(draw(st.lists(st.integers(1, 5), min_size=1, max_size=4)))
    axis = draw(st.one_of(st.none(), st.just(-1), st.integers(0, len(shape) - 1)))
    ax = len(shape) - 1 if axis in (None, -1) else axis
    k = draw(st.integers(1, shape[ax]))
    if draw(st.integers(0, 3)) == 0:
        # many words per group: group weights of 256 and more (e.g. the weight of a whole 256-bit state), mostly-ones values
        shape = list(shape)
        shape[ax] = draw(st.sampled_from([16, 32, 33, 40, 64, 100, 300]))
        shape = tuple(shape)
        k = draw(st.sampled_from([shape[ax], shape[ax], max(1, shape[ax] // 2), 32, 16, 8, 4]))
        k = min(k, shape[ax])
        mx = np.iinfo(dt).max
        data = draw(hnp.arrays(dt, shape, elements=st.sampled_from([mx, mx, mx, mx - 1, mx >> 1, 0]), fill=st.just(mx)))
        return {'kind': 'hw', 'data': data, 'axis': axis, 'nb_words': k}
    data = draw(hnp.arrays(dt, shape, elements=st.integers(0, np.iinfo(dt).max)))
    return {'kind': 'hw', 'data': data, 'axis': axis, 'nb_words': k}


@st.composite
def mono_cases(draw):
    model = draw(st.sampled_from(['mono', 'mono', 'value']))
    dt = draw(st.sampled_from(UDT + ['int8', 'int16', 'int32', 'int64'] + (['float32', 'float64'] if model == 'value' else [])))
    shape = tuple(draw(st.lists(st.integers(1, 5), min_size=1, max_size=4)))
    axis = draw(st.one_of(st.none(), st.just(-1), st.integers(0, len(shape) - 1)))
    if np.dtype(dt).kind == 'f':
        data = draw(hnp.arrays(dt, shape, elements=st.floats(-1e6, 1e6, width=32)))
        return {'kind': 'mono', 'model': model, 'data': data, 'axis': axis, 'bit': 0}
    info = np.iinfo(dt)
    width = 8 * np.dtype(dt).itemsize - (1 if info.min < 0 else 0)
    b = draw(st.integers(0, min(8, width - 1)))
    data = draw(hnp.arrays(dt, shape, elements=st.integers(info.min, info.max)))
    return {'kind': 'mono', 'model': model, 'data': data, 'axis': axis, 'bit': b}


@st.composite
def disc_cases(draw):
    name = draw(st.sampled_from(sorted(DISC)))
    dt = draw(st.sampled_from(['float32', 'float64']))
    shape = tuple(draw(st.lists(st.integers(1, 5), min_size=2, max_size=4)))
    axis = draw(st.one_of(st.none(), st.just(-1), st.integers(0, len(shape) - 1)))
    els = st.one_of(st.floats(-1e3, 1e3, width=32), st.just(float('nan')), st.sampled_from([0.0, -0.0, 1.0, -1.0]))
    if draw(st.integers(0, 3)) == 0:
        els = st.one_of(els, st.sampled_from([float('inf'), float('-inf')]))      # infinite entries are not NaN: they take part in the reduction
    data = draw(hnp.arrays(dt, shape, elements=els))
    if draw(st.booleans()):
        # force an all-NaN lane along the reduced axis
        ax = len(shape) - 1 if axis in (None, -1) else axis
        m = np.moveaxis(data, ax, -1)
        m[(0,) * (m.ndim - 1)] = np.nan
    return {'kind': 'disc', 'disc': name, 'data': data, 'axis': axis}


def unit_generated(ctx, which, n):
    strat = {'hw': hw_cases(), 'mono': mono_cases(), 'disc': disc_cases()}[which]
    hyp.run(ctx, strat, replay, n)


def units(tier):
    q = tier == 'quick'
    us = [{'name': 'sweeps', 'fn': 'unit_sweeps', 'kwargs': {'n_random': 20 if q else 2000}}]
    for which, n in (('hw', 1500), ('mono', 1000), ('disc', 2000)):
        for i in range(1 if q else 4):
            us.append({'name': 'gen-%s-%d' % (which, i), 'fn': 'unit_generated', 'kwargs': {'which': which, 'n': n if q else n * 30}})
    return us


# dimensions added after the fourth and fifth round of seeded changes (DESIGN.md 8.3, 8.4); part of the rule reported in the evidence
RULE += ' Added with the fourth and fifth round of seeded changes: HammingWeight groups of 16..300 words of mostly-ones values (group weights of 256 and more).'
