"""C20 — Synchronizer output is exactly the accepted traces, in order, with own metadata."""
import itertools
import os
import shutil
import tempfile
import warnings
from pathlib import Path

import numpy as np
from hypothesis import strategies as st
from hypothesis.extra import numpy as hnp

import scared
from vlib import gen, hyp
from vlib.core import Violation, must

PROP = 'C20'
LEVEL = 'fault_enumeration'
TECHNIQUE = 'complete enumeration of accept / raise ResynchroError / raise other / return None patterns of the user function for short trace sets, Hypothesis-generated longer patterns (incl. long failure runs), model = list of accepted indices'
RULE = ('cases = (input trace set from RAM with samples + plaintext + idx metadata, pattern over {A accept, R raise ResynchroError, E raise other Exception, N return None}, output length, str|Path output, overwrite); '
        'all 4^n patterns for n<=5 (n<=6 thorough) enumerated, random patterns up to n=40 with runs of >=8 and >=16 consecutive failures; '
        'non-trivial = at least one rejected and one accepted trace, or all rejected; distinct = digest of (pattern, data, config).')
LEVEL_TEXT = ('The fault space (which traces the user function rejects and how) is enumerated completely for short trace sets and sampled with structure for longer ones; after run() the output '
              'set is compared sample-by-sample and metadata-by-metadata with the model list of accepted traces, the counters with the model counts, and a second run() must be refused. '
              'Fault enumeration is the natural level: the property quantifies over accept/reject patterns.')
LEVEL_NOTE = 'trusted: estraces RAM reader and ETS reader used to read inputs/outputs back; temporary ETS files in a per-run temp dir'
ASSUMPTIONS = ['returned data has a constant length within a run', 'KeyboardInterrupt handling is not part of the statement and not exercised',
               'when nothing is accepted run() may raise for lack of an output file: only the counters and the refusal of a second run are asserted then']

_TMP = [None]


def _tmpdir():
    if _TMP[0] is None:
        _TMP[0] = tempfile.mkdtemp(prefix='verif-c20-')
        import atexit
        atexit.register(shutil.rmtree, _TMP[0], True)
    return _TMP[0]


class _Other(Exception):
    pass


class _StopSub(StopIteration):
    pass


def _transform(samples, out_len, scale):
    L = len(samples)
    idx = [(i * 3 + 1) % L for i in range(out_len)]
    return (samples[idx].astype('float64') * scale + 1).astype('float32')


def check_sync(ctx, case):
    samples, plaintext, pattern = case['samples'], case['plaintext'], case['pattern']
    out_len, scale = case['out_len'], case['scale']
    n = len(samples)
    ths = scared.traces.read_ths_from_ram(samples=samples, plaintext=plaintext, idx=np.arange(n, dtype='uint32').reshape(n, 1))
    d = tempfile.mkdtemp(dir=_tmpdir())
    fname = os.path.join(d, 'out.ets')
    pre_content = None
    if case['preexisting']:
        # the output file already exists from an earlier synchronization (other content, other number of traces)
        m0 = min(n, 1 + int(case['preexisting']) % 3)
        pre_ths = scared.traces.read_ths_from_ram(samples=(samples[:m0].astype('float64') + 7).astype(samples.dtype), plaintext=plaintext[:m0],
                                                  idx=np.arange(m0, dtype='uint32').reshape(m0, 1))
        with warnings.catch_warnings():
            warnings.simplefilter('ignore')
            first = scared.Synchronizer(pre_ths, fname, lambda trace_object: trace_object.samples[:].astype('float32') * 2)
            o0 = first.run()
            pre_content = np.array(o0.samples[:])
            o0.close()
    output = Path(fname) if case['as_path'] else fname
    calls = []
    in_check = [False]
    scratch = np.zeros(16, dtype='float32')
    if case.get('sibling_kwargs'):
        # another Synchronizer of the same process, built with an extra keyword argument for ITS function and never run
        def other_fn(trace_object, window):
            return trace_object.samples[:window]
        scared.Synchronizer(ths, os.path.join(d, 'sibling.ets'), other_fn, window=2)

    def fn(trace_object, scale):
        i = int(trace_object.idx[0])
        if not in_check[0]:
            calls.append(i)
        a = pattern[i]
        if a == 'R':
            raise scared.ResynchroError('rejected')
        if a == 'E':
            raise _Other('boom')
        if a == 'S':
            raise (StopIteration if i % 2 == 0 else _StopSub)('an iterator inside the user function was exhausted')
        if a == 'N':
            return None
        res = _transform(trace_object.samples[:], out_len, scale)
        if case.get('reuse_out_buffer'):
            # the user function hands back a view of ONE scratch buffer that it refills on every call
            scratch[:len(res)] = res
            return scratch[:len(res)]
        return res
    # the documented convention passes the trace BY KEYWORD (trace_object=...): a function whose first positional parameter is something else,
    # or whose parameters are keyword-only, is as valid as fn(trace_object, ...)
    sig = case.get('fn_signature') or 'trace_first'
    fn_core = fn
    if sig == 'trace_second':
        def fn(scale, trace_object):           # noqa: F811
            return fn_core(trace_object, scale)
    elif sig == 'keyword_only':
        def fn(*, trace_object, scale):        # noqa: F811
            return fn_core(trace_object, scale)
    try:
        with warnings.catch_warnings():
            warnings.simplefilter('ignore')
            late = case.get('set_after_init') or ''
            sync = must(case, 'Synchronizer(...)', scared.Synchronizer, ths, output, (lambda trace_object, scale: None) if late == 'function' else fn,
                        **({'overwrite': True} if case['overwrite'] else {}), scale=(scale + 2) if late == 'kwargs' else scale)
            # the documented attributes `function` and `kwargs` describe what run() applies: they may be set on the object after construction
            if late == 'function':
                sync.function = fn
            elif late == 'kwargs':
                sync.kwargs['scale'] = scale
            acc = [i for i in range(n) if pattern[i] == 'A']
            if case.get('check_before'):
                # the documented dry run on randomly picked traces must not influence a later run()
                import contextlib
                import io
                np.random.seed(int(case['check_before']) * 7919 + n)
                in_check[0] = True
                try:
                    with contextlib.redirect_stdout(io.StringIO()):
                        must(case, 'Synchronizer.check(nb_traces=%d)' % case['check_before'], sync.check, nb_traces=int(case['check_before']))
                finally:
                    in_check[0] = False
            out = None
            try:
                out = sync.run()
            except Exception as e:
                if pre_content is not None and not case['overwrite']:
                    # refusing to touch an existing file is a clean rejection: the file must then still hold the earlier content only
                    back = scared.traces.read_ths_from_ets_file(fname)
                    same = back.samples[:].shape == pre_content.shape and np.array_equal(back.samples[:], pre_content)
                    back.close()
                    if not same:
                        raise Violation('run() refused the existing output file (%s) but its content changed' % type(e).__name__, case)
                    ctx.case(case, True, ['preexisting_output_refused'])
                    return
                if acc:
                    raise Violation('run() raised %s: %s although %d trace(s) were accepted' % (type(e).__name__, str(e)[:120], len(acc)), case)
        if calls != list(range(n)):
            raise Violation('user function called on traces %s, expected each input trace once in order' % calls, case)
        if sync.processed_counter != n or sync.synchronized_counter != len(acc):
            raise Violation('counters (processed=%s, synchronized=%s), expected (%d, %d) for pattern %s' % (
                sync.processed_counter, sync.synchronized_counter, n, len(acc), ''.join(pattern)), case)
        if acc:
            if out is None or len(out) != len(acc):
                raise Violation('output set has %s traces, expected %d accepted (pattern %s)' % (None if out is None else len(out), len(acc), ''.join(pattern)), case)
            got = out.samples[:]
            exp = np.array([_transform(samples[i], out_len, scale) for i in acc])
            if got.shape != exp.shape or not np.array_equal(got, exp):
                bad = [j for j in range(len(acc)) if got.shape != exp.shape or not np.array_equal(got[j], exp[j])][:3]
                raise Violation('output samples differ from the data returned for the accepted traces (first differing output rows %s, pattern %s)' % (bad, ''.join(pattern)), case)
            if not np.array_equal(np.asarray(out.plaintext), plaintext[acc]) or not np.array_equal(np.asarray(out.idx).reshape(-1), np.array(acc)):
                raise Violation('output metadata are not those of the originating traces (idx %s, expected %s)' % (np.asarray(out.idx).reshape(-1).tolist(), acc), case)
        try:
            sync.run()
        except scared.SynchronizerError:
            pass
        except Exception as e:
            raise Violation('second run() raised %s instead of SynchronizerError' % type(e).__name__, case)
        else:
            raise Violation('second run() on the same Synchronizer was not refused', case)
        if sync.processed_counter != n or sync.synchronized_counter != len(acc):
            raise Violation('counters changed by the refused second run()', case)
        try:
            if out is not None:
                out.close()
        except Exception:
            pass
    finally:
        shutil.rmtree(d, ignore_errors=True)
    runs = max((len(list(g)) for k, g in itertools.groupby(pattern, key=lambda a: a != 'A') if k), default=0)
    rej = n - len(acc)
    ctx.case(case, (rej > 0 and len(acc) > 0) or len(acc) == 0,
             ['n:%s' % ('<=6' if n <= 6 else '>6'), 'all_rejected' if not acc else ('none_rejected' if rej == 0 else 'mixed'),
              'first_rejected' if pattern[0] != 'A' else 'first_accepted', 'last_rejected' if pattern[-1] != 'A' else 'last_accepted',
              'failure_run>=16' if runs >= 16 else 'failure_run>=8' if runs >= 8 else 'failure_run<8', 'path' if case['as_path'] else 'str',
              'len_differs' if out_len != samples.shape[1] else 'len_same'] + (['check_before_run'] if case.get('check_before') else []) + (['function_reuses_one_output_buffer'] if case.get('reuse_out_buffer') else []) + (['sibling_synchronizer_with_other_kwargs'] if case.get('sibling_kwargs') else []) + (['function_signature:' + case['fn_signature']] if case.get('fn_signature') else []) + (['%s_attribute_set_after_construction' % case['set_after_init']] if case.get('set_after_init') else []) + (['preexisting_output_file'] if case['preexisting'] else []))


def replay(ctx, case):
    check_sync(ctx, case)


def _mk(g, pattern, out_len=None):
    n = len(pattern)
    L = int(g.integers(2, 7))
    return {'kind': 'sync', 'samples': g.integers(0, 256, size=(n, L)).astype(['uint8', 'int16', 'float32'][int(g.integers(3))]),
            'plaintext': g.integers(0, 256, size=(n, 4)).astype('uint8'), 'pattern': list(pattern),
            'out_len': int(g.integers(1, 9)) if out_len is None else out_len, 'scale': float(g.integers(1, 4)),
            'as_path': bool(g.integers(2)), 'overwrite': bool(g.integers(2)), 'preexisting': int(g.integers(1, 4)) if g.integers(5) == 0 else 0,
            'check_before': int(g.integers(1, 6)) if g.integers(4) == 0 else 0,
            'reuse_out_buffer': bool(g.integers(3) == 0), 'sibling_kwargs': bool(g.integers(4) == 0), 'set_after_init': ['', '', '', 'kwargs', 'function'][int(g.integers(5))], 'fn_signature': ['', '', 'trace_second', 'keyword_only'][int(g.integers(4))]}


def unit_enum(ctx, nmax, shard, nshards):
    def cases():
        k = 0
        for n in range(1, nmax + 1):
            for pat in itertools.product('ARENS' if n <= 4 else 'AREN', repeat=n):
                k += 1
                if k % nshards != shard:
                    continue
                yield _mk(gen.rng(ctx.seed, n, pat), pat)
    hyp.run_enum(ctx, cases(), check_sync)


@st.composite
def sync_cases(draw):
    n = draw(st.integers(1, 40))
    style = draw(st.sampled_from(['iid', 'runs', 'runs', 'mostly_fail']))
    if style == 'iid':
        pattern = draw(st.lists(st.sampled_from('AAARENS'), min_size=n, max_size=n))
    elif style == 'mostly_fail':
        pattern = draw(st.lists(st.sampled_from('ARRENNS'), min_size=n, max_size=n))
    else:
        pattern = []
        while len(pattern) < n:
            sym = draw(st.sampled_from('AARENS'))
            ln = draw(st.sampled_from([1, 1, 2, 3, 8, 9, 16, 17, 20]))
            pattern += [sym] * ln
        pattern = pattern[:n]
    L = draw(st.integers(2, 6))
    dt = draw(st.sampled_from(['uint8', 'int16', 'float32']))
    samples = draw(hnp.arrays(dt, (n, L), elements=st.integers(0, 100)))
    plaintext = draw(hnp.arrays('uint8', (n, 4), elements=st.integers(0, 255)))
    return {'kind': 'sync', 'samples': samples, 'plaintext': plaintext, 'pattern': pattern,
            'out_len': draw(st.one_of(st.just(L), st.integers(1, 9))), 'scale': float(draw(st.integers(1, 3))),
            'as_path': draw(st.booleans()), 'overwrite': draw(st.booleans()), 'preexisting': draw(st.sampled_from([0, 0, 0, 1, 2])),
            'check_before': draw(st.sampled_from([0, 0, 0, 1, 3, 7])), 'reuse_out_buffer': draw(st.booleans()), 'sibling_kwargs': draw(st.sampled_from([False, False, True])), 'set_after_init': draw(st.sampled_from(['', '', '', 'kwargs', 'function'])), 'fn_signature': draw(st.sampled_from(['', '', 'trace_second', 'keyword_only']))}


def unit_generated(ctx, n):
    hyp.run(ctx, sync_cases(), check_sync, n)


def units(tier):
    q = tier == 'quick'
    us = []
    ns = 4 if q else 8
    for s in range(ns):
        us.append({'name': 'enum-%d' % s, 'fn': 'unit_enum', 'kwargs': {'nmax': 5 if q else 6, 'shard': s, 'nshards': ns}})
    for i in range(4 if q else 16):
        us.append({'name': 'gen-%d' % i, 'fn': 'unit_generated', 'kwargs': {'n': 250 if q else 5000}})
    return us


# dimensions added after the fourth and fifth round of seeded changes (DESIGN.md 8.3, 8.4); part of the rule reported in the evidence
RULE += ' Added with the fourth and fifth round of seeded changes: function / kwargs attributes set on the object after construction; sibling Synchronizer with other keyword arguments; user function returning one reused buffer.'
