"""C08 — convergence traces are the attack scores on successive prefixes of the traces.

The attack class is subclassed in the harness; the public compute_results() is overridden to log (processed_traces, scores)
each time results are computed.  The distinct logged trace counts are the convergence points P.  Every column of
convergence_traces must equal the scores of a FRESH attack of the same configuration (without convergence step) run on
exactly the first P[j] traces of the concatenated containers.
"""
import logging
import warnings

import numpy as np
from hypothesis import strategies as st

import scared
from vlib import dist, gen, hyp
from vlib.core import Violation, must
from vlib.oracles import stats
from checks.c04 import _bound

PROP = 'C08'
LEVEL = 'exploration'
TECHNIQUE = ('Hypothesis-generated histories (1-3 run() calls, trace counts / convergence_step / container batch size drawn relative to each other) for CPA, DPA, ANOVA, NICV, SNR, MIA and TemplateDPA attacks; '
             'history observation through an overridden public compute_results(); differential oracle = a fresh attack without convergence step on each prefix; point-spacing invariant over the logged history')
RULE = ('case = (attack kind, precision, N per run in 1..80, container batch size int, convergence_step in {1, below/equal/above the batch size, above N, not dividing N}, 1..3 runs, integer-valued or real traces). '
        'Non-trivial = at least 2 convergence columns and (step does not divide the total, or several runs); distinct = digest of the case.')
LEVEL_TEXT = ('Columns are compared with fresh prefix attacks (1e-9 relative in float64, 2e-4 in float32 - on this tree integer-valued data give bit-identical columns; template scores, which sum float terms per batch, 1e-9 / 2e-4 relative in float64 / float32); the number of columns must equal the number of distinct points, points must be '
              'strictly increasing, end at the total, each be at least one step after the previous regular point unless it is the remainder at the end of a run, the last column must equal the final scores, and results/scores must equal those of an attack '
              'without convergence step. The largest gap between points is reported, not asserted (the statement gives no upper bound).')
LEVEL_NOTE = 'trusted: a fresh attack run once on a prefix (C02/C03/C04 territory)'
ASSUMPTIONS = [
    'convergence points are identified with the distinct processed_traces values at which compute_results() runs (documented public method)',
    'up to 14 prefixes per case are recomputed (all when there are fewer; first, last and random ones otherwise)',
]

KINDS = ['cpa', 'dpa', 'anova', 'nicv', 'snr', 'mia', 'tdpa']


def _build(case, convergence_step, log=None):
    kind = case['dist']
    mask = case['mask']
    G = np.array(case['guesses'], dtype='uint8')

    @scared.attack_selection_function(guesses=G, words=case['words'])
    def sf(plaintext, guesses):
        return ((plaintext[:, None, :] ^ guesses[None, :, None]) & mask).astype('uint8')
    model = {'value': scared.Value(), 'hw': scared.HammingWeight()}.get(case['model']) or scared.Monobit(int(case['model'][-1]))
    kw = dict(selection_function=sf, model=model, precision=case.get('mia_precision') or case['precision'], convergence_step=convergence_step)
    name = {'cpa': 'CPAAttack', 'dpa': 'DPAAttack', 'anova': 'ANOVAAttack', 'nicv': 'NICVAttack', 'snr': 'SNRAttack', 'mia': 'MIAAttack', 'tdpa': 'TemplateDPAAttack'}[kind]
    cls = getattr(scared, name)

    class Logged(cls):
        def compute_results(self):
            super().compute_results()
            if log is not None:
                log.append((int(self.processed_traces), np.array(self.scores, copy=True), np.array(self.results, copy=True)))
    if kind == 'tdpa':
        @scared.reverse_selection_function(words=0)
        def rsf(lab):
            return lab
        bt, bl = case['build_traces'], case['build_labels']
        cont = scared.Container(dist.ram_ths(samples=bt, lab=bl))

        @scared.attack_selection_function(guesses=G, words=0)
        def sf1(plaintext, guesses):
            return ((plaintext[:, None, :] ^ guesses[None, :, None]) & mask).astype('uint8')
        a = Logged(container_building=cont, selection_function=sf1, reverse_selection_function=rsf, model=scared.Value(), precision=case['precision'],
                   convergence_step=convergence_step, partitions=list(case['partitions']))
        a._build_analysis._verif_force_kernel = [0] * 64
        a.build()
        return a
    kw['discriminant'] = getattr(scared, case['discriminant'])
    if kind in ('anova', 'nicv', 'snr', 'mia'):
        kw['partitions'] = list(case['partitions'])
    if kind == 'mia':
        kw['bin_edges'] = [float(e) for e in case['edges']]
    a = Logged(**kw)
    if kind in ('anova', 'nicv', 'snr'):
        a._verif_force_kernel = [0] * 256
    return a


def check_case(ctx, case):
    logging.disable(logging.WARNING)
    try:
        scared.set_batch_size(int(case['batch_size']))
        _check(ctx, case)
    finally:
        scared.set_batch_size(None)
        logging.disable(logging.NOTSET)


def _same(a, b, exact, rtol=1e-9):
    a, b = np.asarray(a), np.asarray(b)
    if a.shape != b.shape:
        return False
    if exact and np.array_equal(a, b, equal_nan=True):
        return True
    # not bit-identical: the statement only promises equality up to the rounding of the precision (prefix attack and incremental run batch differently)
    with np.errstate(invalid='ignore'):
        return bool(np.all((np.abs(a - b) <= rtol * (np.abs(b) + 1.0)) | (np.isnan(a) & np.isnan(b)) | (a == b)))


def _check(ctx, case):
    kind = case['dist']
    step = int(case['step'])
    exact = case['regime'] == 'exact' and kind != 'tdpa'
    rtol = 1e-9 if case['precision'] == 'float64' else 2e-4
    log = []
    with warnings.catch_warnings():
        warnings.simplefilter('ignore')
        an = _build(case, step, log)
        totals = []
        steps_by_run = []
        tot = 0
        for ri, run in enumerate(case['runs']):
            if ri > 0 and case.get('bad_run_between'):
                # a run on a container whose traces have another length is refused by the distinguisher: it must leave the bookkeeping untouched
                bad = np.concatenate([run['samples'], run['samples'][:, :1]], axis=1)
                try:
                    an.run(scared.Container(dist.ram_ths(samples=bad, plaintext=run['plaintext'])))
                except Exception:
                    pass
                else:
                    raise Violation('%s: run() on traces of another length was accepted' % kind, case)
                if an.processed_traces != tot:
                    raise Violation('%s: processed_traces = %s after a refused run, %d traces were accepted so far' % (kind, an.processed_traces, tot), case)
            if ri > 0 and (case.get('step_changes') or [0] * (ri + 1))[ri]:
                # the documented attribute is changed on the object between two runs: the new spacing applies from then on
                an.convergence_step = int(case['step_changes'][ri])
            steps_by_run.append(int(an.convergence_step))
            if case.get('mid_fault') and ri == len(case['runs']) - 1 and run['samples'].shape[0] >= 4:
                # the last run fails half-way (an I/O error while reading a batch): what the attack exposes right afterwards is what was reached
                armed, seen, limit = [False], [0], run['samples'].shape[0] // 2

                @scared.preprocess
                def failing(traces):
                    if armed[0]:
                        seen[0] += traces.shape[0]
                        if seen[0] > limit:
                            raise IOError('injected read failure')
                    return traces
                cont = scared.Container(dist.ram_ths(samples=run['samples'], plaintext=run['plaintext']), preprocesses=[failing])
                cont.trace_size
                armed[0] = True
                try:
                    an.run(cont)
                except IOError:
                    pass
                else:
                    raise Violation('%s: run() swallowed the failure of a batch' % kind, case)
                pts = []
                scs = []
                for n_, sc_, _ in log:
                    if not pts or n_ != pts[-1]:
                        pts.append(n_)
                        scs.append(sc_)
                conv_now = an.convergence_traces
                ncols = 0 if conv_now is None else np.asarray(conv_now).shape[-1]
                if ncols != len(pts):
                    raise Violation('%s: after a run that failed half-way convergence_traces has %d columns, %d convergence points %s had been reached' % (kind, ncols, len(pts), pts), case)
                for j in range(ncols):
                    if not np.array_equal(np.asarray(np.asarray(conv_now)[..., j], dtype='float64'), np.asarray(scs[j], dtype='float64'), equal_nan=True):
                        raise Violation('%s: after a run that failed half-way convergence column %d is not the scores computed at %d traces' % (kind, j, pts[j]), case)
                ctx.case(case, len(pts) > (len(totals) and sum(1 for p_ in pts if p_ <= tot)), ['run_failed_half_way', 'kind:' + kind])
                return
            cont = scared.Container(dist.ram_ths(samples=run['samples'], plaintext=run['plaintext']))
            must(case, '%s attack run() #%d with convergence_step=%d' % (kind, ri + 1, steps_by_run[-1]), an.run, cont)
            tot += run['samples'].shape[0]
            totals.append(tot)
            # the attributes are read after every run (reading must neither be stale nor disturb the next run)
            conv_now = an.convergence_traces
            pts_now = []
            for n_, _, _ in log:
                if not pts_now or n_ != pts_now[-1]:
                    pts_now.append(n_)
            if conv_now is None or np.asarray(conv_now).shape[-1] != len(pts_now):
                raise Violation('%s: after run #%d convergence_traces has %s columns for the %d points %s reached so far' % (
                    kind, ri + 1, None if conv_now is None else np.asarray(conv_now).shape[-1], len(pts_now), pts_now), case)
            if not np.array_equal(np.asarray(conv_now, dtype='float64')[..., -1], np.asarray(an.scores, dtype='float64'), equal_nan=True):
                raise Violation('%s: after run #%d the last convergence column differs from the current scores' % (kind, ri + 1), case)
    allx = np.concatenate([r['samples'] for r in case['runs']], axis=0)
    allp = np.concatenate([r['plaintext'] for r in case['runs']], axis=0)
    # convergence points from the history
    P, first_scores = [], []
    for n, sc, _ in log:
        if not P or n != P[-1]:
            P.append(n)
            first_scores.append(sc)
    conv = an.convergence_traces
    if conv is None:
        raise Violation('%s: convergence_traces is None after %d run(s) of %s traces with step %d' % (kind, len(totals), totals, step), case)
    conv = np.asarray(conv)
    if any(b <= a for a, b in zip(P, P[1:])):
        raise Violation('%s: convergence points are not strictly increasing: %s' % (kind, P), case)
    if conv.shape[-1] != len(P):
        raise Violation('%s: %d convergence columns for %d distinct points %s (step %d, batch %d, run totals %s)' % (kind, conv.shape[-1], len(P), P, step, case['batch_size'], totals), case)
    if P[-1] != tot:
        raise Violation('%s: last convergence point %d is not the total number of traces %d' % (kind, P[-1], tot), case)
    # spacing: a point is regular when it lies at least one step after the previous regular point; any other point must be the
    # remainder at the end of a run (a remainder does not restart the count: the next regular point is still measured from the last regular one)
    ends = set(totals)
    last_regular = 0
    for p in P:
        step_p = steps_by_run[min(i for i, t in enumerate(totals) if t >= p)]        # the step in force during the run that reached p
        if p - last_regular >= step_p:
            last_regular = p
        elif p not in ends:
            raise Violation('%s: convergence point %d comes %d traces after the previous regular point %d, less than the step %d, and is not the end of a run (points %s, run totals %s, steps %s)' % (
                kind, p, p - last_regular, last_regular, step_p, P, totals, steps_by_run), case)
    ctx.note_max('largest_gap_over_step', max((b - a) / max(steps_by_run) for a, b in zip([0] + P, P)))
    for j, p in enumerate(P):
        if not np.array_equal(np.asarray(conv[..., j], dtype='float64'), np.asarray(first_scores[j], dtype='float64'), equal_nan=True):
            raise Violation('%s: convergence column %d is not the scores computed when %d traces had been processed' % (kind, j, p), case)
    if not np.array_equal(np.asarray(conv[..., -1], dtype='float64'), np.asarray(an.scores, dtype='float64'), equal_nan=True):
        raise Violation('%s: last convergence column differs from the final scores' % kind, case)
    # fresh attacks on prefixes
    idxs = list(range(len(P)))
    if len(idxs) > 14:
        g = gen.rng('c08-prefixes', P, step)
        idxs = sorted(set([0, 1, len(P) - 1, len(P) - 2] + g.choice(len(P), size=10, replace=False).tolist()))
    scared.set_batch_size(None)
    for j in idxs:
        p = P[j]
        with warnings.catch_warnings():
            warnings.simplefilter('ignore')
            fresh = _build(case, None)
            fresh.run(scared.Container(dist.ram_ths(samples=allx[:p], plaintext=allp[:p])))
        if not _same(np.asarray(conv[..., j], dtype='float64'), np.asarray(fresh.scores, dtype='float64'), exact, rtol):
            d = np.asarray(conv[..., j], dtype='float64') - np.asarray(fresh.scores, dtype='float64')
            raise Violation('%s (%s): convergence column %d (point %d of %s, step %d, batch %d) differs from the scores of a fresh attack on the first %d traces (max |diff| %s)' % (
                kind, case['precision'], j, p, P, step, case['batch_size'], p, float(np.nanmax(np.abs(d))) if np.isfinite(d).any() else 'NaN pattern'), case)
        if j == len(P) - 1:
            if not _same(an.results, fresh.results, exact, rtol) or not _same(an.scores, fresh.scores, exact, rtol):
                raise Violation('%s: final results/scores with convergence_step=%d differ from those of the same attack without convergence step' % (kind, step), case)
        ctx.count('prefix_attacks_compared')
    labels = (['refused_run_between_runs'] if case.get('bad_run_between') else []) + (['step_changed_between_runs'] if len(set(steps_by_run)) > 1 else []) + (['more_than_128_columns'] if len(P) > 128 else []) + ['kind:' + kind, 'prec:' + case['precision'], 'regime:' + case['regime'], 'runs:%d' % len(case['runs']), 'columns:%s' % (len(P) if len(P) < 5 else '5+'),
              'step_vs_batch:' + ('<' if step < case['batch_size'] else '=' if step == case['batch_size'] else '>'), 'step_divides_total' if tot % step == 0 else 'step_does_not_divide_total']
    if step > tot:
        labels.append('step>total')
    ctx.case(case, len(P) >= 2 and (tot % step != 0 or len(case['runs']) > 1), labels)


def replay(ctx, case):
    check_case(ctx, case)


@st.composite
def cases(draw, kind, precision):
    seed64 = draw(st.integers(0, 2 ** 63))
    g = np.random.Generator(np.random.PCG64(seed64))
    regime = draw(st.sampled_from(['exact', 'exact', 'rounded'])) if precision == 'float64' else 'exact'
    bs = draw(st.one_of(st.integers(1, 12), st.integers(1, 40)))
    nruns = draw(st.sampled_from([1, 1, 2, 3]))
    L = draw(st.integers(1, 4))
    runs = []
    tot_max = 80
    sizes = []
    for _ in range(nruns):
        style = draw(st.sampled_from(['multiple', 'multiple+1', 'less', 'any', 'any']))
        N = {'multiple': bs * draw(st.integers(1, 3)), 'multiple+1': bs * draw(st.integers(1, 3)) + 1, 'less': max(1, bs - 1)}.get(style) or draw(st.integers(1, 60))
        sizes.append(max(1, min(N, tot_max)))
    many = draw(st.integers(0, 11)) == 0
    if many:
        # many convergence points (more than 128 columns): small step, two or three long runs
        nruns = draw(st.sampled_from([2, 3]))
        sizes = [draw(st.integers(66, 80)) for _ in range(nruns)]
    total = sum(sizes)
    sk = draw(st.sampled_from(['one', 'below', 'equal', 'above', 'beyond', 'odd', 'any']))
    step = {'one': 1, 'below': max(1, bs - draw(st.integers(1, 3))), 'equal': bs, 'above': bs + draw(st.integers(1, 9)), 'beyond': total + draw(st.integers(1, 5)),
            'odd': draw(st.sampled_from([3, 7, 11, 13]))}.get(sk) or draw(st.integers(1, 45))
    if many:
        step = draw(st.sampled_from([1, 1, 2]))
    step_changes = [0] * nruns
    if nruns > 1 and not many and draw(st.integers(0, 3)) == 0:
        for r_ in range(1, nruns):
            step_changes[r_] = draw(st.sampled_from([0, step + draw(st.integers(1, 30)), max(1, step - draw(st.integers(1, 5))), step * 3]))
    B = min(_bound(total, precision), 200)
    tdt = draw(st.sampled_from(['uint8', 'int16', 'float32', 'float64']))
    for N in sizes:
        pt = g.integers(0, 256, size=(N, 2)).astype('uint8')
        if regime == 'exact':
            lo, hi = (0, min(B, 255)) if tdt == 'uint8' else (-B, B)
            x = g.integers(lo, hi + 1, size=(N, L))
            x[:, 0] = np.clip(x[:, 0] // 2 + (pt[:, 0] & 7), lo, hi)
        else:
            x = g.normal(size=(N, L)) * 3 + 5
            x[:, 0] += (pt[:, 0] & 7)
        runs.append({'samples': x.astype(tdt if regime == 'exact' or tdt.startswith('float') else 'float64'), 'plaintext': pt})
    model = 'mono%d' % draw(st.integers(0, 2)) if kind == 'dpa' else 'value' if kind == 'tdpa' else draw(st.sampled_from(['value', 'hw']))
    mask = draw(st.sampled_from([0x07, 0x03]))
    bad_between = nruns > 1 and kind != 'tdpa' and draw(st.integers(0, 2)) == 0
    case = {'kind': 'convergence', 'mid_fault': kind != 'tdpa' and draw(st.integers(0, 7)) == 0, 'step_changes': step_changes, 'bad_run_between': bad_between, 'dist': kind, 'precision': precision, 'regime': regime, 'batch_size': bs, 'step': step, 'runs': runs, 'model': model, 'mask': mask,
            'words': None if kind != 'tdpa' else 0, 'guesses': list(range(draw(st.integers(2, 4)))), 'discriminant': draw(st.sampled_from(['maxabs', 'nanmax', 'abssum']))}
    vmax = mask if model == 'value' else bin(mask).count('1')
    if kind in ('anova', 'nicv', 'snr', 'mia', 'tdpa'):
        case['partitions'] = list(range(vmax + 1))
    if kind == 'mia':
        case['mia_precision'] = draw(st.sampled_from([None, 'uint32', 'uint32', 'int64']))     # MIA's precision is the dtype of its counters
        allx = np.concatenate([r['samples'] for r in runs], axis=0).astype('float64')
        lo = float(np.floor(allx.min()))
        w = max(1.0, float(np.ceil((allx.max() - lo) / 4)))
        case['edges'] = [lo + w * i for i in range(5)]
    if kind == 'tdpa':
        k = vmax + 1
        per = draw(st.integers(2, 4))
        bl = np.array([i % k for i in range(per * k)])
        g.shuffle(bl)
        bt = g.integers(-4, 5, size=(len(bl), L)) + 3 * bl[:, None] + (20 if tdt == 'uint8' else 0)
        case['build_traces'] = bt.astype(runs[0]['samples'].dtype)
        case['build_labels'] = bl.astype('uint8').reshape(-1, 1)
    return case


def unit_generated(ctx, kinds, precision, n):
    for i, kind in enumerate(kinds):
        hyp.run(ctx, cases(kind, precision), check_case, n, shrink_budget=60 if ctx.tier == 'quick' else 400, seed_extra=i)


def units(tier):
    q = tier == 'quick'
    us = []
    for rep in range(2):
        for precision in ('float64', 'float32'):
            us.append({'name': 'cpa-dpa-%s-%d' % (precision, rep), 'fn': 'unit_generated', 'kwargs': {'kinds': ['cpa', 'dpa'], 'precision': precision, 'n': 120 if q else 1500}})
            us.append({'name': 'anova-nicv-%s-%d' % (precision, rep), 'fn': 'unit_generated', 'kwargs': {'kinds': ['anova', 'nicv'], 'precision': precision, 'n': 80 if q else 1000}})
            us.append({'name': 'snr-mia-%s-%d' % (precision, rep), 'fn': 'unit_generated', 'kwargs': {'kinds': ['snr', 'mia'], 'precision': precision, 'n': 80 if q else 1000}})
            us.append({'name': 'tdpa-%s-%d' % (precision, rep), 'fn': 'unit_generated', 'kwargs': {'kinds': ['tdpa'], 'precision': precision, 'n': 80 if q else 1000}})
    return us


def selftest():
    return stats.selftest()


# dimensions added after the fourth and fifth round of seeded changes (DESIGN.md 8.3, 8.4); part of the rule reported in the evidence
RULE += ' Added with the fourth and fifth round of seeded changes: histories with more than 128 convergence columns (step 1-2, 2-3 runs of 66..80 traces); convergence_step changed on the object between runs (spacing rule uses the step in force).'
