"""C12 — classes are identified by value: order is irrelevant, foreign values ignored.

Every case runs a *base* instance (classes 0..k-1 in order — the only situation the repository's tests sample) and a *variant*
obtained by a transformation under which the property says nothing observable may change:
  permute   the same class values listed in another order (transposition, reversed, random)
  rename    classes renamed by an injective map to arbitrary values (gaps, values up to 2**17-1) and listed in another order;
            the labels (and undeclared labels, and template hypothesis values) are renamed consistently
  superset  unused values added to the class list (ANOVA/NICV/SNR/MIA)
  drop      every trace whose (single) word carries an undeclared value removed
  replace   every undeclared value replaced by another undeclared value
and compares the outputs (per-class outputs permuted accordingly).  The variant is additionally compared with the
definition evaluated by value (ANOVA/NICV/SNR/MIA, template means).
"""
import math
import warnings

import numpy as np
from hypothesis import strategies as st

import scared
from vlib import dist, gen, hyp
from vlib.core import Violation, must
from vlib.oracles import stats, mia as omia
from checks.c04 import auto_classes

PROP = 'C12'
LEVEL = 'exploration'
TECHNIQUE = ('metamorphic testing over Hypothesis-generated class lists and data: permute / rename+permute / superset / drop-undeclared / replace-undeclared transformations of a contiguous-class base '
             'instance must leave results unchanged (per-class outputs permuted); variant also compared with the by-value definition; automatic class sets checked against the first batch')
RULE = ('case = (kind in anova|nicv|snr|mia|template build|TemplateDPAAttack|TemplateAttack, k in 1..20 classes, renaming to distinct values of [0,600) + {255,256,65535,65536,70000,131070,131071} in arbitrary order, '
        'labels with undeclared values and empty classes, traces, batches, relation). Non-trivial = the variant class list is not sorted-contiguous-from-0 or undeclared values are present; '
        'distinct = digest of the case. Separate cases: automatic class set with first-batch maximum in {0,1,7,8,9,10,62,63,64,65,254,255}.')
LEVEL_TEXT = ('For each generated case two real instances are run and compared: identical accumulators are implied by the property, so results must agree to the rounding of the final formula '
              '(bit-identical templates, counts and MIA histograms). Exploration over sampled class lists, relations and data; index-versus-value confusions are exposed because the variant never has value == position.')
LEVEL_NOTE = 'trusted: the base instance on contiguous sorted classes (covered by C04/C13/C14 oracles), vlib/oracles/stats.py, vlib/oracles/mia.py'
ASSUMPTIONS = [
    'template matching is only driven with hypothesis values that are declared classes (the statement does not say what an undeclared hypothesis value contributes)',
    'relations that reorder or extend the class list are compared with the tolerance of the final formula (sums over classes in list order), not bit-for-bit',
    'template scores are compared with tolerance 1e-9 x cond(pooled covariance); cases with cond > 1e6 are skipped and counted',
]

POOL_SPECIAL = [255, 256, 65535, 65536, 70000, 131070, 131071]
PART_KINDS = ('anova', 'nicv', 'snr')


# ------------------------------------------------------------------------------------------------
# running instances

def _run_partitioned(case, kind, partitions, traces, data, kernels):
    obj = dist.make(kind, precision=case['precision'], partitions=list(partitions))
    if kernels and len(partitions) <= 9:
        obj._verif_force_kernel = list(kernels)
    _feed(case, obj, traces, data, case['cuts'])
    with warnings.catch_warnings():
        warnings.simplefilter('ignore')
        return obj, must(case, '%s.compute' % kind, obj.compute)


def _feed(case, obj, traces, data, cuts):
    n = traces.shape[0]
    cuts = [0] + [c for c in cuts if 0 < c < n] + [n]
    for a, b in zip(cuts, cuts[1:]):
        if b > a:
            must(case, 'update (classes %s...)' % (list(getattr(obj, 'partitions', []) if getattr(obj, 'partitions', None) is not None else [])[:6],), obj.update, gen.L(case, traces[a:b]), gen.L(case, data[a:b], 2))


def _run_mia(case, partitions, traces, data):
    obj = scared.MIADistinguisher(bin_edges=[float(e) for e in case['edges']], partitions=list(partitions))
    _feed(case, obj, traces, data, case['cuts'])
    with warnings.catch_warnings():
        warnings.simplefilter('ignore')
        return obj, must(case, 'mia.compute', obj.compute)


def _run_tbuild(case, partitions, traces, data, kernels):
    obj = dist.TemplateBuildDistinguisher(partitions=list(partitions), precision=case['precision'])
    if kernels:
        obj._verif_force_kernel = list(kernels)
    _feed(case, obj, traces, data, case['cuts'])
    with warnings.catch_warnings():
        warnings.simplefilter('ignore')
        tpl = must(case, 'template build compute', obj.compute)
    return obj, tpl


def _attack(case, kind, partitions, traces, labels):
    @scared.reverse_selection_function
    def rsf(lab):
        return lab

    @scared.attack_selection_function(words=0, guesses=range(case['guesses']))
    def asf(hyp, guesses):
        return hyp
    ths = dist.ram_ths(samples=traces, lab=labels)
    cont = scared.Container(ths)
    if kind == 'tdpa':
        return scared.TemplateDPAAttack(container_building=cont, selection_function=asf, reverse_selection_function=rsf,
                                        model=scared.Value(), precision=case['precision'], partitions=list(partitions))
    return scared.TemplateAttack(container_building=cont, reverse_selection_function=rsf,
                                 model=scared.Value(), precision=case['precision'], partitions=list(partitions))


def _run_attack(case, kind, partitions, traces, labels, mtraces, mdata):
    import logging
    logging.disable(logging.WARNING)
    try:
        scared.set_batch_size(case.get('batch_size') or None)
        a = _attack(case, kind, partitions, traces, labels)
        a._build_analysis._verif_force_kernel = (list(case.get('kernels') or [0]) * 64)[:64]
        must(case, '%s.build() with classes %s' % (kind, list(partitions)[:8]), a.build)
        cuts = case['mcuts']
        n = mtraces.shape[0]
        cc = [0] + [c for c in cuts if 0 < c < n] + [n]
        for lo, hi in zip(cc, cc[1:]):
            must(case, '%s matching update with classes %s' % (kind, list(partitions)[:8]), a.update, mtraces[lo:hi], mdata[lo:hi])
        scores = must(case, '%s compute' % kind, a.compute)
        return a, np.asarray(scores, dtype='float64')
    finally:
        scared.set_batch_size(None)
        logging.disable(logging.NOTSET)


# ------------------------------------------------------------------------------------------------
def _close(case, what, a, b, tol, exact_nan=True):
    a = np.asarray(a, dtype='float64')
    b = np.asarray(b, dtype='float64')
    if a.shape != b.shape:
        raise Violation('%s: shapes differ %s vs %s' % (what, a.shape, b.shape), case)
    na, nb = np.isnan(a), np.isnan(b)
    tol = np.broadcast_to(np.asarray(tol, dtype='float64'), a.shape)
    bad = np.zeros(a.shape, dtype=bool)
    both = ~na & ~nb
    bad[both] = np.abs(a[both] - b[both]) > tol[both]
    if exact_nan:
        bad |= (na != nb) & (tol < 0.05 * np.maximum(np.abs(np.where(na, b, a)), 1e-30))
    if bad.any():
        idx = tuple(int(v) for v in np.argwhere(bad)[0])
        raise Violation('%s: entry %s is %r in the base instance and %r in the variant (tol %.3g)' % (what, idx, float(a[idx]), float(b[idx]), float(tol[idx])), case)


def _same_templates(case, what, a, b, traces, eps):
    if stats.is_integral(traces):
        if not dist.same(a, b):
            raise Violation('%s: templates are not the same per class value (max |diff| %s)' % (what, float(np.nanmax(np.abs(np.asarray(a, dtype='float64') - np.asarray(b, dtype='float64'))))), case)
    else:
        # real-valued traces: the two instances may use different kernels / batch splits, sums are rounded differently
        _close(case, what + ': templates', a, b, 64 * eps * traces.shape[0] * (float(np.max(np.abs(traces))) + 1.0))


def check_case(ctx, case):
    kind = case['dist']
    rel = case['relation']
    precision = case['precision']
    eps = float(np.finfo(precision).eps)
    traces, base_lab = case['traces'], case['labels']
    k = case['k']
    base_parts = list(range(k))
    var_parts = [int(v) for v in case['var_partitions']] if not case.get('var_range') else list(range(int(case['var_range'])))
    vtraces, var_lab = case.get('var_traces', traces), case['var_labels']
    labels_ = ['kind:' + kind, 'relation:' + rel, 'prec:' + precision, 'k:%s' % ('<=9' if len(var_parts) <= 9 else '>9')]
    undeclared = bool((~np.isin(base_lab, base_parts)).any())
    nontrivial = var_parts != list(range(len(var_parts))) or undeclared
    if max(var_parts) > 255:
        labels_.append('class_value>255')
    if undeclared:
        labels_.append('has_undeclared')
    if var_parts != sorted(var_parts):
        labels_.append('unsorted_list')
    # position in the variant list of the class that is base class i
    pos = None
    if rel in ('rename', 'permute', 'huge'):
        ren = [int(v) for v in case['rename']]
        pos = [var_parts.index(ren[i]) for i in range(k)]
    if True:
        if kind in PART_KINDS:
            _, rb = _run_partitioned(case, kind, base_parts, traces, base_lab, case['kernels'])
            _, rv = _run_partitioned(case, kind, var_parts, vtraces, var_lab, case['kernels2'])
            # (for the tens of thousands of declared classes of the 'huge' relation only the populated ones enter the by-value definition)
            def_parts = var_parts if rel != 'huge' else sorted(set(int(v) for v in np.unique(var_lab)) & set(var_parts))
            val, tol, defined = stats.partitioned(kind, vtraces, var_lab.reshape(var_lab.shape[0], -1), def_parts, eps)
            factor = 1.0 if stats.is_integral(traces) else float(traces.shape[0])
            tol = tol * factor
            _close(case, '%s under %s' % (kind, rel), rb, rv, 2 * tol + 1e-300)
            got = np.asarray(rv, dtype='float64')
            ok = defined & (tol <= 0.05 * np.maximum(np.abs(val), 1e-30))
            bad = ok & ~(np.abs(got - val) <= tol)
            if bad.any():
                j, i = [int(v) for v in np.argwhere(bad)[0]]
                raise Violation('%s with classes %s: word %d sample %d: got %r, definition by class value gives %r (tol %.3g)' % (kind, var_parts[:8], j, i, got[j, i], val[j, i], tol[j, i]), case)
            if stats.is_integral(traces) and (np.isnan(got) != ~defined)[(~defined) | ok].any():
                raise Violation('%s with classes %s: NaN pattern differs from the definition by value' % (kind, var_parts[:8]), case)
            ctx.count('cells_vs_definition', int(ok.sum()))
        elif kind == 'mia':
            ob, rb = _run_mia(case, base_parts, traces, base_lab)
            ov, rv = _run_mia(case, var_parts, vtraces, var_lab)
            _close(case, 'mia under %s' % rel, rb, rv, 1e-9)
            if rel in ('drop', 'replace', 'rename', 'permute', 'huge'):
                hb = np.asarray(ob.accumulators)
                hv = np.asarray(ov.accumulators)
                if pos is not None:
                    hv = hv[:, :, pos, :]
                if not np.array_equal(hb, hv):
                    raise Violation('mia under %s: the (sample, bin, class, word) histograms differ' % rel, case)
            edges = [float(e) for e in case['edges']]
            for j in range(var_lab.shape[1]):
                labs = [int(v) for v in var_lab[:, j]]
                for i in range(vtraces.shape[1]):
                    values, info = omia.column_mi([float(v) for v in vtraces[:, i]], labs, var_parts, edges, 0.0)
                    v = values[0]
                    if v is None:
                        continue
                    if not abs(float(rv[j, i]) - v) <= 1e-9:
                        raise Violation('mia with classes %s: word %d sample %d: got %r, mutual information by class value is %r' % (var_parts[:8], j, i, float(rv[j, i]), v), case)
                    ctx.count('cells_vs_definition')
        elif kind == 'tbuild':
            ob, tb = _run_tbuild(case, base_parts, traces, base_lab, case['kernels'])
            ov, tv = _run_tbuild(case, var_parts, vtraces, var_lab, case['kernels2'])
            tvp = tv[pos] if pos is not None else tv
            _same_templates(case, 'template build under %s' % rel, tb, tvp, traces, eps)
            cb, cv = np.asarray(ob._counters), np.asarray(ov._counters)
            if not np.array_equal(cb, cv[pos] if pos is not None else cv):
                raise Violation('template build under %s: per-class trace counts differ' % rel, case)
            scale = float(np.max(np.abs(ob.pooled_covariance))) + 1.0
            ctol = 1e-10 * scale if stats.is_integral(traces) else 64 * eps * traces.shape[0] * (float(np.max(np.abs(traces))) ** 2 + 1.0)
            _close(case, 'pooled covariance under %s' % rel, ob.pooled_covariance, ov.pooled_covariance, ctol)
            # by value: template of class value c = mean of the traces labelled c (classes with >= 2 traces)
            lab1 = var_lab.reshape(-1)
            for idx, c in enumerate(var_parts):
                m = lab1 == c
                if m.sum() >= 2:
                    mean = vtraces[m].astype('float64').mean(axis=0)
                    tolm = 8 * eps * (np.abs(vtraces[m].astype('float64')).mean(axis=0) + 1) * (1 if stats.is_integral(vtraces) else m.sum())
                    if not np.all(np.abs(np.asarray(tv[idx], dtype='float64') - mean) <= tolm):
                        raise Violation('template build with classes %s: template of class value %d is %s, mean of its traces is %s' % (var_parts[:8], c, np.asarray(tv[idx]).tolist(), mean.tolist()), case)
                    ctx.count('cells_vs_definition')
        else:
            ab, sb = _run_attack(case, kind, base_parts, traces, base_lab, case['mtraces'], case['mdata'])
            av, sv = _run_attack(case, kind, var_parts, vtraces, var_lab, case['mtraces'], case['var_mdata'])
            cond = float(np.linalg.cond(ab.pooled_covariance)) if np.all(np.isfinite(ab.pooled_covariance)) else float('inf')
            tb_, tv_ = np.asarray(ab.templates), np.asarray(av.templates)
            _same_templates(case, '%s under %s' % (kind, rel), tb_, tv_[pos] if pos is not None else tv_, traces, eps)
            if not (cond < 1e6):
                ctx.count('skipped_scores_ill_conditioned_covariance')
            else:
                svp = sv[pos] if (pos is not None and kind == 'tstatic') else sv
                tolS = (1e-9 if stats.is_integral(traces) else max(1e-9, 64 * eps * traces.shape[0])) * cond * (np.abs(sb) + 10.0)
                _close(case, '%s scores under %s' % (kind, rel), sb, svp, tolS)
                if int(np.nanargmax(sb)) != int(np.nanargmax(svp)) and np.sort(sb)[-1] - np.sort(sb)[-2] > 4 * float(np.max(tolS)):
                    raise Violation('%s under %s: best candidate changed' % (kind, rel), case)
    ctx.case(case, nontrivial, labels_)


def check_auto(ctx, case):
    """automatic class set: must contain every value of the first batch; later foreign values are ignored"""
    kind = case['dist']
    traces, lab = case['traces'], case['labels']
    first = case['first']
    if kind in PART_KINDS:
        obj = dist.make(kind, precision=case['precision'])
    elif kind == 'mia':
        obj = scared.MIADistinguisher(bin_edges=[float(e) for e in case['edges']])
    else:
        obj = dist.TemplateBuildDistinguisher(precision=case['precision'])
    must(case, '%s first update with automatic classes (first-batch max %d)' % (kind, int(lab[:first].max())), obj.update, traces[:first], lab[:first])
    parts = [int(v) for v in obj.partitions]
    missing = sorted(set(int(v) for v in np.unique(lab[:first])) - set(parts))
    if missing:
        raise Violation('%s: automatic class set (%d values, max %s) does not contain value(s) %s present in the first batch' % (kind, len(parts), parts[-1:] or None, missing[:5]), case)
    expected = auto_classes(int(lab[:first].max()))
    if traces.shape[0] > first:
        must(case, '%s second update' % kind, obj.update, traces[first:], lab[first:])
    with warnings.catch_warnings():
        warnings.simplefilter('ignore')
        r = must(case, '%s.compute' % kind, obj.compute)
    # same data with the class set declared explicitly
    c2 = dict(case, cuts=[first], kernels=[], kernels2=[])
    if kind in PART_KINDS:
        _, r2 = _run_partitioned(c2, kind, parts, traces, lab, [])
    elif kind == 'mia':
        _, r2 = _run_mia(c2, parts, traces, lab)
    else:
        _, r2 = _run_tbuild(c2, parts, traces, lab, [])
    if stats.is_integral(traces) and not dist.same(r, r2):
        raise Violation('%s: result with the automatic class set differs from the result with the same set declared explicitly' % kind, case)
    ctx.case(case, True, ['kind:' + kind, 'auto_classes', 'auto_size:%d' % len(parts), 'first_max:%d' % int(lab[:first].max())] + (['auto_set_as_documented'] if parts == expected else ['auto_set_other']))


def replay(ctx, case):
    if case.get('kind') == 'auto':
        check_auto(ctx, case)
    else:
        check_case(ctx, case)


# ------------------------------------------------------------------------------------------------
def _pick_values(g, k, extra=0):
    """k + extra distinct class values: mostly small, sometimes > 255 and near 2**17-1"""
    pool = set()
    while len(pool) < k + extra:
        r = g.integers(0, 10)
        if r < 6:
            pool.add(int(g.integers(0, 40)))
        elif r < 8:
            pool.add(int(g.integers(0, 600)))
        else:
            pool.add(int(g.choice(POOL_SPECIAL)))
    vals = list(pool)
    g.shuffle(vals)
    return [int(v) for v in vals]


@st.composite
def cases(draw, kind, precision, tdtypes, pool_seed=0):
    seed64 = draw(st.integers(0, 2 ** 63))
    g = np.random.Generator(np.random.PCG64(seed64))
    is_attack = kind in ('tdpa', 'tstatic')
    single_word = kind in ('tbuild', 'tdpa', 'tstatic')
    k = draw(st.sampled_from([1, 2, 2, 3, 3, 4, 5, 8, 9, 10, 20] if not single_word else [2, 2, 3, 3, 4, 5, 9, 10]))
    # class lists come from a small per-unit pool (3 per k): the lookup function of a list is compiled once per process
    gp = gen.rng(pool_seed, 'class-list-pool', k, draw(st.integers(0, 2)))
    rels = ['rename', 'rename', 'permute', 'permute', 'drop', 'replace'] + (['superset', 'superset'] if kind in PART_KINDS + ('mia',) else [])
    if kind in PART_KINDS + ('mia',) and draw(st.integers(0, 19)) == 0:
        rels = ['huge']
    rel = draw(st.sampled_from(rels))
    W = 1 if single_word else draw(st.integers(1, 3))
    if rel == 'drop':
        W = 1
    s = draw(st.integers(1, 3 if single_word else 4))
    per_class = draw(st.integers(3, 6)) if single_word else None
    n = k * per_class + draw(st.integers(0, 6)) if single_word else draw(st.one_of(st.integers(2, 20), st.integers(2, 120)))
    tdt = draw(st.sampled_from(tdtypes))
    isint = np.dtype(tdt).kind in 'iu'
    # labels: declared classes 0..k-1, undeclared k, k+1
    n_und = draw(st.sampled_from([0, 1, 2, 2]))
    if single_word:
        base = np.array([i % k for i in range(k * per_class)] + [int(g.integers(k)) for _ in range(n - k * per_class)])
        g.shuffle(base)
        lab = base.reshape(n, 1)
        if n_und:
            extra = g.integers(k, k + n_und, size=(draw(st.integers(1, 4)), 1))
            lab = np.concatenate([lab, extra], axis=0)
            lab = lab[g.permutation(lab.shape[0])]
            n = lab.shape[0]
    else:
        used = list(range(k))
        if k > 2 and draw(st.booleans()):
            used = used[:-1] if draw(st.booleans()) else used[1:]      # an empty declared class
        pool = used + list(range(k, k + n_und))
        p = g.dirichlet(np.ones(len(pool)) * draw(st.sampled_from([0.3, 1.0, 5.0])))
        lab = g.choice(pool, size=(n, W), p=p)
    # traces: class-dependent level + noise so that classes differ
    from checks.c04 import _bound
    B = min(500, _bound(n, precision))
    if isint:
        info = np.iinfo(tdt)
        lo, hi = max(-B, int(info.min)), min(B, int(info.max))
        tr = np.clip(g.integers(lo, hi + 1, size=(n, s)) // 2 + (lab[:, :1] * 3) % max(1, (hi - lo) // 2), lo, hi).astype(tdt)
    else:
        if draw(st.booleans()):
            tr = (g.integers(-B, B + 1, size=(n, s)) + (lab[:, :1] * 3) % B).astype(tdt)
        else:
            tr = (g.normal(size=(n, s)) + (lab[:, :1] % 7) * 0.7).astype(tdt)
    if single_word and s > 1:
        tr[:, 1:] = tr[:, 1:] + (g.integers(0, 3, size=(n, s - 1))).astype(tdt)
    ncuts = draw(st.integers(0, 2)) if n > 2 else 0
    cuts = sorted(set(draw(st.lists(st.integers(1, n - 1), min_size=ncuts, max_size=ncuts)))) if n > 1 else []
    nb = len(cuts) + 1
    case = {'kind': 'relation', 'dist': kind, 'relation': rel, 'precision': precision, 'k': k, 'traces': tr, 'cuts': cuts,
            'kernels': [draw(st.integers(0, 1)) for _ in range(nb)], 'kernels2': [draw(st.integers(0, 1)) for _ in range(nb)]}
    if kind == 'mia':
        w = draw(st.sampled_from([1, 2, 5, 49]))
        lo_e = int(np.floor(float(tr.min()))) - draw(st.integers(-2, 2))
        nb_e = max(1, int(math.ceil((float(tr.max()) - lo_e) / w)) + draw(st.integers(-1, 1)))
        case['edges'] = [lo_e + w * i for i in range(nb_e + 1)]
    # variant
    und_vals = list(range(k, k + n_und))
    if rel == 'rename':
        vals = _pick_values(gp, k, extra=2)
        ren = vals[:k]
        und_ren = vals[k:]
        order = list(gp.permutation(k))
        var_parts = [ren[i] for i in order]
        table = {i: ren[i] for i in range(k)}
        table.update({u: und_ren[j] for j, u in enumerate(und_vals)})
        var_lab = np.vectorize(lambda v: table[int(v)], otypes=['int64'])(lab)
        case['rename'] = ren
    elif rel == 'huge':
        # a class list of tens of thousands of values (every value of a 16-bit intermediate), the populated classes near its end
        P = int(gp.choice([40000, 65536]))
        ren = [P - 1 - 37 * i for i in range(k)]
        table = {i: ren[i] for i in range(k)}
        table.update({u: P + 3 + j for j, u in enumerate(und_vals)})
        var_parts = []
        case['var_range'] = P
        var_lab = np.vectorize(lambda v: table[int(v)], otypes=['int64'])(lab)
        case['rename'] = ren
    elif rel == 'permute':
        # the same classes listed in another order: a transposition, an interior transposition, the reversed or a random order
        style = int(gp.integers(4))
        perm = list(range(k))
        if k >= 2 and style == 0:
            a_, b_ = sorted(gp.choice(k, size=2, replace=False).tolist())
            perm[a_], perm[b_] = perm[b_], perm[a_]
        elif k >= 4 and style == 1:
            a_ = int(gp.integers(1, k - 2))
            perm[a_], perm[a_ + 1] = perm[a_ + 1], perm[a_]
        elif style == 2:
            perm = perm[::-1]
        else:
            perm = [int(v) for v in gp.permutation(k)]
        var_parts = perm
        var_lab = lab.copy()
        table = {i: i for i in range(k + 3)}
        case['rename'] = list(range(k))
    elif rel == 'superset':
        extra = [v for v in _pick_values(gp, 6, 0) if v >= k + 2][:int(gp.integers(1, 6))] or [k + 5]
        var_parts = list(range(k)) + extra
        if gp.integers(2):
            var_parts = extra + list(range(k))
        var_lab = lab.copy()
    elif rel == 'drop':
        keep = np.isin(lab[:, 0], list(range(k)))
        if keep.sum() == 0:
            keep[0] = True
        var_parts = list(range(k))
        var_lab = lab[keep]
        case['var_traces'] = tr[keep]
        # batches of the variant: same cut points are meaningless after dropping -> single batch unless exact regime anyway
    else:  # replace
        var_parts = list(range(k))
        repl = {u: int(k + n_und + 1 + j * 7) for j, u in enumerate(und_vals)}
        var_lab = np.vectorize(lambda v: repl.get(int(v), int(v)), otypes=['int64'])(lab)
    mx = int(max(var_lab.max(), lab.max(), max(var_parts) if var_parts else 0))
    ddt = draw(st.sampled_from([d for d in gen.CLASS_DTYPES if mx <= np.iinfo(d).max]))
    if np.dtype(ddt).kind == 'i' and mx < 2 ** 16 and rel in ('rename', 'permute', 'superset', 'replace') and not is_attack and draw(st.integers(0, 2)) == 0:
        # negative values in signed data are foreign values too (same positions in base and variant)
        for _ in range(draw(st.integers(1, 3))):
            r_, c_ = int(g.integers(lab.shape[0])), int(g.integers(lab.shape[1]))
            if kind != 'tbuild' or (np.isin(lab[:, 0], list(range(k))).sum() - 1) >= 2 * k:
                v_ = -int(g.choice([1, 2, 3, 7, 100]))
                lab = lab.copy()
                var_lab = var_lab.copy()
                lab[r_, c_] = v_
                var_lab[r_, c_] = v_
    case['labels'] = lab.astype(ddt)
    case['var_labels'] = var_lab.astype(ddt)
    case['var_partitions'] = var_parts
    if is_attack:
        G = draw(st.integers(2, 4))
        case['guesses'] = G
        m = draw(st.integers(1, 12))
        hyp_ = g.integers(0, k, size=(m, G))
        case['mtraces'] = tr[g.integers(0, n, size=m)] if draw(st.booleans()) else np.clip(g.integers(-B, B + 1, size=(m, s)), np.iinfo(tdt).min if isint else -B, np.iinfo(tdt).max if isint else B).astype(tdt)
        mc = draw(st.integers(0, 1)) if m > 1 else 0
        case['mcuts'] = [draw(st.integers(1, m - 1))] if mc else []
        if kind == 'tstatic':
            hyp_ = hyp_[:, :1]
        case['mdata'] = hyp_.astype(ddt)
        if rel in ('rename', 'permute'):
            case['var_mdata'] = np.vectorize(lambda v: table[int(v)], otypes=['int64'])(hyp_).astype(ddt)
        else:
            case['var_mdata'] = hyp_.astype(ddt)
        case['batch_size'] = draw(st.sampled_from([0, 0, 3, 7]))
    return case


@st.composite
def auto_cases(draw, precision, tdtypes, kind, amax):
    seed64 = draw(st.integers(0, 2 ** 63))
    g = np.random.Generator(np.random.PCG64(seed64))
    W = 1 if kind == 'tbuild' else draw(st.integers(1, 3))
    first = draw(st.integers(1, 12))
    rest = draw(st.integers(0, 12))
    n = first + rest
    s = draw(st.integers(1, 3))
    style = draw(st.sampled_from(['full_range', 'only_max', 'few']))
    if style == 'full_range':
        lab = g.integers(0, amax + 1, size=(n, W))
    elif style == 'only_max':
        lab = np.full((n, W), amax)
    else:
        lab = g.choice(sorted(set([0, amax, amax // 2])), size=(n, W))
    lab[int(g.integers(first)), int(g.integers(W))] = amax
    if rest and draw(st.booleans()):
        lab[first + int(g.integers(rest)), int(g.integers(W))] = min(255, len(auto_classes(amax)) + int(g.integers(0, 4)))
    tdt = draw(st.sampled_from(tdtypes))
    if np.dtype(tdt).kind in 'iu':
        info = np.iinfo(tdt)
        tr = g.integers(max(-30, int(info.min)), min(30, int(info.max)) + 1, size=(n, s)).astype(tdt)
    else:
        tr = g.integers(-30, 31, size=(n, s)).astype(tdt)
    ddt = draw(st.sampled_from([d for d in gen.CLASS_DTYPES if int(lab.max()) <= np.iinfo(d).max]))
    case = {'kind': 'auto', 'dist': kind, 'precision': precision, 'traces': tr, 'labels': lab.astype(ddt), 'first': first}
    if kind == 'mia':
        case['edges'] = [-32 + 8 * i for i in range(9)]
    return case


def unit_relations(ctx, kind, precision, tdtypes, n):
    hyp.run(ctx, cases(kind, precision, tdtypes, ctx.seed), check_case, n, shrink_budget=40 if ctx.tier == 'quick' else 300)


def unit_family(ctx, kinds, precision, tdtypes, n):
    for i, kind in enumerate(kinds):
        hyp.run(ctx, cases(kind, precision, tdtypes, ctx.seed), check_case, n, shrink_budget=40 if ctx.tier == 'quick' else 300, seed_extra=i)


AUTO_MAX = [0, 1, 7, 8, 9, 10, 62, 63, 64, 65, 254, 255]


def unit_auto(ctx, precision, tdtypes, n):
    # every (kind, first-batch maximum) combination is visited; data inside each is generated
    i = 0
    for kind in ['anova', 'nicv', 'snr', 'mia', 'tbuild']:
        for amax in AUTO_MAX:
            i += 1
            hyp.run(ctx, auto_cases(precision, tdtypes, kind, amax), check_auto, n, shrink_budget=40 if ctx.tier == 'quick' else 300, seed_extra=i)
            if ctx.violations:
                return


def units(tier):
    q = tier == 'quick'
    n = 120 if q else 1500
    us = []
    for i, (precision, tdts) in enumerate([('float32', ['uint8', 'float32']), ('float64', ['int16', 'float64']), ('float32', ['int8', 'float32']),
                                           ('float64', ['uint8', 'float32']), ('float64', ['uint16', 'float64']), ('float32', ['int32', 'float64'])]):
        us.append({'name': 'partitioned-%s-%s' % (precision, '+'.join(tdts)), 'fn': 'unit_family',
                   'kwargs': {'kinds': list(PART_KINDS), 'precision': precision, 'tdtypes': tdts, 'n': n}})
    for precision, tdts in [('float32', ['uint8', 'float32']), ('float64', ['int16', 'float64']), ('float32', ['int8', 'float64'])]:
        us.append({'name': 'mia-%s' % '+'.join(tdts), 'fn': 'unit_relations', 'kwargs': {'kind': 'mia', 'precision': precision, 'tdtypes': tdts, 'n': 3 * n}})
    for precision, tdts in [('float32', ['uint8', 'float32']), ('float64', ['int16', 'float64'])]:
        us.append({'name': 'tbuild-%s-%s' % (precision, '+'.join(tdts)), 'fn': 'unit_relations', 'kwargs': {'kind': 'tbuild', 'precision': precision, 'tdtypes': tdts, 'n': 3 * n}})
    for precision, tdts in [('float32', ['uint8', 'float32']), ('float64', ['int16', 'float64'])]:
        us.append({'name': 'tdpa-%s-%s' % (precision, '+'.join(tdts)), 'fn': 'unit_relations', 'kwargs': {'kind': 'tdpa', 'precision': precision, 'tdtypes': tdts, 'n': 2 * n}})
    us.append({'name': 'tstatic-float64', 'fn': 'unit_relations', 'kwargs': {'kind': 'tstatic', 'precision': 'float64', 'tdtypes': ['uint8', 'float64'], 'n': 2 * n}})
    for precision, tdts in [('float32', ['uint8', 'float32']), ('float64', ['int16', 'float64'])]:
        us.append({'name': 'auto-%s' % precision, 'fn': 'unit_auto', 'kwargs': {'precision': precision, 'tdtypes': tdts, 'n': 3 if q else 30}})
    return us


def selftest():
    return stats.selftest() + ' ' + omia.selftest()
