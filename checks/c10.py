"""C10 — key schedules conform and invert: AES from any window, DES from any round key."""
import numpy as np
from hypothesis import strategies as st

from scared import aes, des
from vlib import gen, hyp
from vlib.core import Violation, must
from vlib.oracles import aes_ref as AR, des_ref as DR

PROP = 'C10'
LEVEL = 'exploration'
TECHNIQUE = 'complete enumeration of all AES (col_in, col_out) expansion windows and all DES rounds with generated keys, differential against independent FIPS references; round-trip (key recovery) checks'
RULE = ('cases = every AES key size x col_in in [0,total-Nk] x col_out in [0,total] window (7 569) x {single key, key batch} with random keys; aes.key_schedule / inv_key_schedule(round_in 0..10); '
        'DES key_schedule for random + 64 unit-vector keys x interrupt_after_round 0..15; des.get_master_key from each of the 16 round keys. '
        'Non-trivial = window not starting at column 0 or backward expansion, or DES case; distinct = digest of (config, keys).')
LEVEL_TEXT = ('All expansion windows and all 16 DES round indices are enumerated in every run with fresh keys, compared with independently written FIPS-197 / FIPS 46-3 '
              'schedules; recovered master keys are compared with the original (parity bits masked for DES) and re-encrypt the pair. Exploration: key space sampled.')
LEVEL_NOTE = 'trusted: reference schedules in vlib/oracles (self-tested against FIPS vectors and 4200 independent KATs each run)'
ASSUMPTIONS = ['reference schedules correct (self-test)', 'DES master key compared up to the 8 parity bits, as the property states']

TOTAL = {16: 44, 24: 52, 32: 60}


def _ref_sched_bytes(key):
    w = AR.expand(bytes(key))
    return [b for col in w for b in col]   # flat list, 4 bytes per column


KEY_DTYPES = ['uint8', 'uint8', 'int16', 'uint16', 'int32', 'uint32', 'int64', 'uint64']


def _as_arg(case, arr):
    """the key argument as a caller may hold it: byte values in any integer dtype, any memory layout (both derived from the case)"""
    from vlib.core import digest
    dt = KEY_DTYPES[digest(case)[1] % len(KEY_DTYPES)]
    return gen.L(case, np.asarray(arr).astype(dt), 1)


def check_aes_window(ctx, case):
    keys, col_in, col_out, single = case['keys'], case['col_in'], case['col_out'], case['single']
    ks = keys.shape[1]
    nk = ks // 4
    # the window of Nk columns starting at col_in, taken from the true schedule of each master key
    full = [_ref_sched_bytes(k) for k in keys]
    win = np.array([f[4 * col_in:4 * (col_in + nk)] for f in full], dtype='uint8')
    arg = _as_arg(case, win[0] if single else win)
    a0 = arg.copy()
    # the column indexes as Python ints or as numpy integer scalars (what a loop over numpy.arange hands over); derived from the case
    from vlib.core import digest
    ikind = [None, None, 'int64', 'uint8', 'uint64', 'int32'][digest(case)[2] % 6]
    conv = (lambda v: v) if ikind is None else (lambda v: np.dtype(ikind).type(v))
    kw = {'col_in': conv(col_in)}
    if col_out is not None:
        kw['col_out'] = conv(col_out)
    out, hist = gen.pure_call(case, 'aes.key_expansion(%s%s)' % (kw, '' if ikind is None else ' as numpy.' + ikind), aes.key_expansion, [arg], kw, refill=True)
    arg = arg if hist in ('plain', 'held') else a0
    co = TOTAL[ks] if col_out is None else col_out
    if col_in < co:
        lo, hi = col_in, co
    else:
        lo, hi = co, col_in + nk
    exp = np.array([f[4 * lo:4 * hi] for f in (full[:1] if single else full)], dtype='uint8')
    if np.shape(out) != exp.shape or not np.array_equal(out, exp):
        raise Violation('aes.key_expansion(col_in=%d, col_out=%s%s) keysize=%d: differs from the true schedule columns [%d,%d)' % (col_in, col_out, '' if ikind is None else ', passed as numpy.' + ikind, ks, lo, hi), case)
    if not np.array_equal(arg, a0):
        raise Violation('aes.key_expansion modified its input', case)
    ctx.case(case, col_in > 0 or co <= col_in, ['aes-window', 'keysize:%d' % ks, 'backward' if co <= col_in else 'forward', 'single' if single else 'batch', 'history:' + hist],
             key=('w', col_in, col_out, single, keys))


def check_aes_schedule(ctx, case):
    keys, single = case['keys'], case['single']
    ks = keys.shape[1]
    arg = _as_arg(case, keys[0] if single else keys)
    out, hist = gen.pure_call(case, 'aes.key_schedule', aes.key_schedule, [arg], refill=True)
    exp = np.array([AR.round_keys(bytes(k)) for k in (keys[:1] if single else keys)], dtype='uint8')
    if single:
        exp = exp[0]
    if np.shape(out) != exp.shape or not np.array_equal(out, exp):
        raise Violation('aes.key_schedule keysize=%d differs from FIPS-197 (shape %s vs %s)' % (ks, np.shape(out), exp.shape), case)
    if ks == 16:
        for r in ([case['round_in']] if case.get('round_in') is not None else range(11)):
            rk = exp[r] if single else exp[:, r]
            back = must(case, 'aes.inv_key_schedule(round_in=%d)' % r, aes.inv_key_schedule, np.ascontiguousarray(rk), r)
            # the shape for a single key is (1, 11, 16) (key_expansion documents a leading key axis): content is what the property states
            if np.squeeze(back).shape != np.squeeze(exp).shape or not np.array_equal(np.squeeze(back), np.squeeze(exp)):
                raise Violation('aes.inv_key_schedule(round_in=%d) does not reproduce the schedule' % r, case)
    ctx.case(case, True, ['aes-schedule', 'keysize:%d' % ks, 'single' if single else 'batch', 'history:' + hist], key=('s', single, keys))


def check_des_schedule(ctx, case):
    keys, single, r = case['keys'], case['single'], case['interrupt']
    arg = _as_arg(case, keys[0] if single else keys)
    kw = {} if r is None else {'interrupt_after_round': r}
    out, hist = gen.pure_call(case, 'des.key_schedule(%s)' % kw, des.key_schedule, [arg], kw, refill=True)
    rr = 15 if r is None else r
    exp = np.array([DR.schedule_words(bytes(k))[:rr + 1] for k in (keys[:1] if single else keys)], dtype='uint8')
    if single:
        exp = exp[0]
    if np.shape(out) != exp.shape or not np.array_equal(out, exp):
        raise Violation('des.key_schedule(interrupt_after_round=%s) differs from PC-1/shift/PC-2 (shape %s vs %s)' % (r, np.shape(out), exp.shape), case)
    ctx.case(case, True, ['des-schedule', 'single' if single else 'batch', 'interrupt:%s' % r, 'history:' + hist], key=('d', single, r, keys))


def check_des_master(ctx, case):
    key, pt, r = case['key'], case['pt'], case['round']
    sched = DR.split_keys(bytes(key))
    ct = np.array(DR.crypt(list(map(int, pt)), sched, 'encrypt'), dtype='uint8')
    rk = np.array(DR.schedule_words(bytes(key))[r], dtype='uint8')
    # byte values in any integer dtype (an array built from Python ints is int64): round key, plaintext and ciphertext each get one from the case digest
    from vlib.core import digest
    dts = ['uint8', 'uint8', 'int64', 'uint16', 'int32']
    dg = digest(case)
    rk, pt_a, ct = rk.astype(dts[dg[1] % 5]), np.asarray(pt).astype(dts[dg[2] % 5]), ct.astype(dts[dg[3] % 5])
    got = must(case, 'des.get_master_key(round=%d, dtypes %s/%s/%s)' % (r, rk.dtype, pt_a.dtype, ct.dtype), des.get_master_key, rk, r, pt_a, ct)
    if got is None:
        raise Violation('des.get_master_key(round=%d) found no key' % r, case)
    got = np.asarray(got)
    if got.shape != (8,) or not np.array_equal(got & 0xFE, key & 0xFE):
        raise Violation('des.get_master_key(round=%d) returned %s, original %s (parity masked)' % (r, got.tolist(), key.tolist()), case)
    if DR.crypt(list(map(int, pt)), DR.split_keys(bytes(got.astype('uint8'))), 'encrypt') != ct.tolist():
        raise Violation('key returned by des.get_master_key does not re-encrypt the pair', case)
    ctx.case(case, True, ['des-master', 'round:%d' % r], key=('m', r, key, pt))


def unit_aes_windows(ctx, ks, reps, shard, nshards):
    def cases():
        nk = ks // 4
        i = 0
        for col_in in range(0, TOTAL[ks] - nk + 1):
            for col_out in list(range(0, TOTAL[ks] + 1)) + [None]:
                i += 1
                if i % nshards != shard:
                    continue
                for rep in range(reps):
                    g = gen.rng(ctx.seed, ks, col_in, col_out, rep)
                    single = bool((rep + i) % 2)
                    n = 1 if single else int(g.integers(1, 4))
                    yield {'kind': 'aes_window', 'keys': g.integers(0, 256, size=(n, ks)).astype('uint8'), 'col_in': col_in, 'col_out': col_out, 'single': single}
    hyp.run_enum(ctx, cases(), check_aes_window)


def unit_schedules(ctx, reps):
    def cases():
        g = gen.rng(ctx.seed, 'sched')
        for ks in (16, 24, 32):
            for rep in range(reps):
                single = bool(rep % 2)
                n = 1 if single else int(g.integers(1, 4))
                yield {'kind': 'aes_schedule', 'keys': g.integers(0, 256, size=(n, ks)).astype('uint8'), 'single': single}
        unit_keys = np.zeros((64, 8), dtype='uint8')
        for i in range(64):
            unit_keys[i, i // 8] = 0x80 >> (i % 8)
        for r in [None] + list(range(16)):
            yield {'kind': 'des_schedule', 'keys': unit_keys, 'single': False, 'interrupt': r}
            yield {'kind': 'des_schedule', 'keys': (255 - unit_keys).astype('uint8'), 'single': False, 'interrupt': r}
            for rep in range(reps):
                single = bool(rep % 2)
                n = 1 if single else int(g.integers(1, 4))
                yield {'kind': 'des_schedule', 'keys': g.integers(0, 256, size=(n, 8)).astype('uint8'), 'single': single, 'interrupt': r}
    def chk(ctx, case):
        (check_aes_schedule if case['kind'] == 'aes_schedule' else check_des_schedule)(ctx, case)
    hyp.run_enum(ctx, cases(), chk)


def _dropped_key_bits(r):
    """positions (0..63, MSB first) of the 8 master-key bits that PC-2 does not select in round r (from the reference tables)"""
    cd = list(DR.PC1)
    c, d = cd[:28], cd[28:]
    for sft in DR.SHIFTS[:r + 1]:
        c = c[sft:] + c[:sft]
        d = d[sft:] + d[:sft]
    sel = set((c + d)[i - 1] for i in DR.PC2)
    return sorted(p - 1 for p in set(DR.PC1) - sel)


def _with_dropped_bits(key, r, pattern):
    """key with the 8 bits that round key r does not contain set to the bits of ``pattern`` (0..255)"""
    bits = DR.bits([int(v) for v in key])
    for i, pos in enumerate(_dropped_key_bits(r)):
        bits[pos] = (pattern >> (7 - i)) & 1
    return np.array(DR.pack(bits), dtype='uint8')


def unit_des_master(ctx, reps, shard):
    def cases():
        for r in range(16):
            for rep in range(reps):
                g = gen.rng(ctx.seed, 'master', shard, r, rep)
                key = g.integers(0, 256, size=8).astype('uint8')
                # the 8 key bits missing from round key r are what get_master_key has to search: force boundary completions too
                style = (rep + shard) % 4
                if style == 1:
                    key = _with_dropped_bits(key, r, 0xFF)
                elif style == 2:
                    key = _with_dropped_bits(key, r, 0x00)
                elif style == 3:
                    key = _with_dropped_bits(key, r, int(g.integers(0, 256)))
                yield {'kind': 'des_master', 'key': key, 'pt': g.integers(0, 256, size=8).astype('uint8'), 'round': r}
        for key in ([0xFF] * 8, [0x00] * 8, [0xFE] * 8, [0x01] * 8, [0xAA] * 8, [0x55] * 8):
            if (shard + key[0]) % 3 == 0:
                yield {'kind': 'des_master', 'key': np.array(key, dtype='uint8'), 'pt': gen.rng(ctx.seed, 'special', key[0]).integers(0, 256, size=8).astype('uint8'), 'round': (shard * 5 + key[0]) % 16}
    hyp.run_enum(ctx, cases(), check_des_master)


@st.composite
def gen_cases(draw):
    which = draw(st.sampled_from(['aes_window', 'aes_window', 'aes_schedule', 'des_schedule']))
    single = draw(st.booleans())
    n = 1 if single else draw(st.integers(1, 3))
    if which.startswith('aes'):
        ks = draw(st.sampled_from([16, 24, 32]))
        keys = np.frombuffer(draw(st.binary(min_size=n * ks, max_size=n * ks)), dtype='uint8').reshape(n, ks).copy()
        if which == 'aes_schedule':
            return {'kind': which, 'keys': keys, 'single': single, 'round_in': draw(st.integers(0, 10))}
        nk = ks // 4
        return {'kind': which, 'keys': keys, 'single': single, 'col_in': draw(st.integers(0, TOTAL[ks] - nk)),
                'col_out': draw(st.one_of(st.none(), st.integers(0, TOTAL[ks])))}
    keys = np.frombuffer(draw(st.binary(min_size=n * 8, max_size=n * 8)), dtype='uint8').reshape(n, 8).copy()
    return {'kind': which, 'keys': keys, 'single': single, 'interrupt': draw(st.one_of(st.none(), st.integers(0, 15)))}


def replay(ctx, case):
    {'aes_window': check_aes_window, 'aes_schedule': check_aes_schedule, 'des_schedule': check_des_schedule, 'des_master': check_des_master}[case['kind']](ctx, case)


def unit_generated(ctx, n):
    hyp.run(ctx, gen_cases(), replay, n)


def units(tier):
    q = tier == 'quick'
    us = []
    ns = 2 if q else 3
    for ks in (16, 24, 32):
        for s in range(ns):
            us.append({'name': 'aes-windows-%d-%d' % (ks, s), 'fn': 'unit_aes_windows', 'kwargs': {'ks': ks, 'reps': 2 if q else 40, 'shard': s, 'nshards': ns}})
    us.append({'name': 'schedules', 'fn': 'unit_schedules', 'kwargs': {'reps': 6 if q else 400}})
    for s in range(4 if q else 6):
        us.append({'name': 'des-master-%d' % s, 'fn': 'unit_des_master', 'kwargs': {'reps': 1 if q else 30, 'shard': s}})
    us.append({'name': 'generated', 'fn': 'unit_generated', 'kwargs': {'n': 500 if q else 30000}})
    return us


def _selftest_dropped_bits():
    key = np.array([0x13, 0x34, 0x57, 0x79, 0x9B, 0xBC, 0xDF, 0xF1], dtype='uint8')
    for r in range(16):
        assert len(_dropped_key_bits(r)) == 8
        k2 = _with_dropped_bits(key, r, 0xFF)
        k3 = _with_dropped_bits(key, r, 0x00)
        assert DR.schedule(bytes(k2))[r] == DR.schedule(bytes(key))[r] == DR.schedule(bytes(k3))[r]
        assert bytes(k2) != bytes(k3)


def selftest():
    _selftest_dropped_bits()
    return AR.selftest() + ' ' + DR.selftest()


# dimensions added after the fourth and fifth round of seeded changes (DESIGN.md 8.3, 8.4); part of the rule reported in the evidence
RULE += ' Added with the fourth and fifth round of seeded changes: caller refills the key/window array while holding the result (gen.pure_call refill).'
