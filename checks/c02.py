"""C02 — Analysis.run on a Container equals the one-shot statistic on the whole trace set.

Two oracles per case:
 (a) history monitor: the analysis class is subclassed in the harness and its public update(traces, data) records every batch.
     The recorded blocks must be consecutive row ranges of chain(samples[:, frame]) and of model(sf(metadata)), covering
     every trace exactly once, in order, each paired with its own metadata — whatever the configured batch size;
 (b) results == independent definition of the statistic on everything (concatenated over successive run() calls),
     scores == discriminant(results) recomputed with numpy.
"""
import logging
import math
import warnings

import numpy as np
from hypothesis import strategies as st

import scared
from vlib import dist, gen, hyp
from vlib.core import Violation, must
from vlib.oracles import stats, mia as omia
from checks.c04 import auto_classes

PROP = 'C02'
LEVEL = 'exploration'
TECHNIQUE = ('Hypothesis-generated (trace set sizes relative to the batch size, batch-size setting int/MB/table, frame, preprocess chain, analysis class x attack/reverse, model, discriminant, 1-3 run() calls); '
             'history monitor on the public update() of a harness subclass (coverage/order/pairing invariant) plus independent one-shot definitions of the statistic and numpy discriminants')
RULE = ('case = (1..3 containers of N in 1..70 traces x 2..12 samples with plaintext/idx metadata, batch size as int | float MB | table, frame None|slice|list (unsorted, repeated)|ndarray|range, chain of 0..3 row-wise preprocesses, '
        'analysis in CPA|DPA|ANOVA|NICV|SNR|MIA x Attack|Reverse, model Value|HammingWeight|Monobit, explicit or first-batch-determined class set, explicit MIA edges, discriminant, optional convergence_step for attacks). '
        'Non-trivial = at least 2 batches in some run and (a tail batch shorter than the others, or a frame, or at least one preprocess); distinct = digest of the case.')
LEVEL_TEXT = ('Every batch really fed to the distinguisher is recorded and must be the next consecutive block of the independently preprocessed trace matrix paired with the intermediate values of the same rows; '
              'all rows must be consumed exactly once in order; final results/scores are compared with definitions computed once over all traces of all runs. Exploration over sampled configurations; '
              'N is drawn relative to the batch size so that N < batch, N = k x batch and N = k x batch + 1 all occur.')
LEVEL_NOTE = 'trusted: numpy implementations of the preprocess chain / selection function / models used by the oracle (xor, popcount, bit extraction, square, power, fft modulus)'
ASSUMPTIONS = [
    'only row-wise preprocesses are chained (batch-mean center/standardize depend on the batch by documentation)',
    'automatic class sets are predicted from the first recorded batch (frozen from the first batch by design, as the property states)',
    'recorded blocks are compared with a relative tolerance of 4 eps of the analysis precision (at least 1e-10): rows are identified, an early conversion to the precision is not an alarm',
]

ANALYSES = ['cpa', 'dpa', 'anova', 'nicv', 'snr', 'mia']
DISCS = ['maxabs', 'nanmax', 'opposite_min', 'nansum', 'abssum']


# ------------------------------------------------------------------------------------------------
# oracle-side implementations

def _np_chain(x, chain):
    for p in chain:
        if p == 'square':
            x = x.astype(np.result_type(x.dtype, 'float32')) ** 2
        elif p == 'pow3':
            x = x.astype(np.result_type(x.dtype, 'float64')) ** 3
        elif p == 'affine':
            x = x.astype('float64') * 0.5 + 1.0
        elif p == 'reverse':
            x = x[:, ::-1].copy()
        elif p == 'evens':
            x = x[:, ::2].copy()
        elif p == 'fftmod':
            x = np.abs(np.fft.fft(x, axis=1))[:, :int(math.ceil(x.shape[1] / 2))]
        elif p == 'serialize':
            x = np.unpackbits(x.astype('uint8'), axis=1)
        else:
            raise ValueError(p)
    return x


def _scared_chain(chain):
    out = []
    for p in chain:
        if p == 'square':
            out.append(scared.preprocesses.square)
        elif p == 'pow3':
            out.append(scared.preprocesses.ToPower(3, precision='float64'))
        elif p == 'affine':
            @scared.preprocess
            def affine(traces):
                return traces.astype('float64') * 0.5 + 1.0
            out.append(affine)
        elif p == 'reverse':
            @scared.preprocess
            def reverse(traces):
                return traces[:, ::-1].copy()
            out.append(reverse)
        elif p == 'evens':
            @scared.preprocess
            def evens(traces):
                return traces[:, ::2].copy()
            out.append(evens)
        elif p == 'fftmod':
            out.append(scared.preprocesses.fft_modulus)
        elif p == 'serialize':
            out.append(scared.preprocesses.serialize_bit)
    return out


def _popcount(a):
    a = a.astype('uint64')
    c = np.zeros(a.shape, dtype='uint32')
    for i in range(8):
        c += ((a >> np.uint64(i)) & np.uint64(1)).astype('uint32')
    return c


def _np_intermediate(case, plaintext):
    """model(selection_function(metadata)) computed with plain numpy: (N, G, W') for attacks, (N, W') for reverse"""
    mask = case['mask']
    words = case['words']
    pt = plaintext.astype('uint8')
    if case['mode'] == 'attack':
        g = np.array(case['guesses'], dtype='uint8')
        v = (pt[:, None, :] ^ g[None, :, None]) & mask
    else:
        v = pt & mask
    if words is not None:
        v = v[..., words] if not isinstance(words, int) else v[..., words]
    m = case['model']
    if case.get('wide'):
        mul, add = case['wide']
        return v.astype('int32') * int(mul) + int(add)      # Value model on a selection function with a wide / signed integer range
    if m == 'value':
        return v.astype('uint8')
    if m == 'hw':
        return _popcount(v)
    return ((v >> int(m[-1])) & 1).astype('uint8')


def _np_disc(name, r):
    with warnings.catch_warnings():
        warnings.simplefilter('ignore')
        if name == 'maxabs':
            return np.nanmax(np.abs(r), axis=-1)
        if name == 'nanmax':
            return np.nanmax(r, axis=-1)
        if name == 'opposite_min':
            return -np.nanmin(r, axis=-1)
        if name == 'nansum':
            return np.nansum(r, axis=-1)
        return np.nansum(np.abs(r), axis=-1)


def _model(case):
    m = case['model']
    if m == 'value':
        return scared.Value()
    if m == 'hw':
        return scared.HammingWeight()
    return scared.Monobit(int(m[-1]))


def _make_analysis(case, log):
    mask = case['mask']
    words = case['words']
    wide = case.get('wide')
    kw = {'precision': case.get('mia_precision') or case['precision']}
    if case['mode'] == 'attack':
        @scared.attack_selection_function(guesses=np.array(case['guesses'], dtype='uint8'), words=words)
        def sf(plaintext, guesses):
            v = ((plaintext[:, None, :] ^ guesses[None, :, None]) & mask).astype('uint8')
            return v if wide is None else v.astype('int32') * int(wide[0]) + int(wide[1])
        kw['discriminant'] = getattr(scared, case['discriminant'])
        if case.get('convergence_step'):
            kw['convergence_step'] = int(case['convergence_step'])
    else:
        @scared.reverse_selection_function(words=words)
        def sf(plaintext):
            v = (plaintext & mask).astype('uint8')
            return v if wide is None else v.astype('int32') * int(wide[0]) + int(wide[1])
    a = case['analysis']
    cls = getattr(scared, {'cpa': 'CPA', 'dpa': 'DPA', 'anova': 'ANOVA', 'nicv': 'NICV', 'snr': 'SNR', 'mia': 'MIA'}[a] + ('Attack' if case['mode'] == 'attack' else 'Reverse'))

    class Monitored(cls):
        def update(self, traces, data):
            log.append((np.array(traces, copy=True), np.array(data, copy=True)))
            return super().update(traces, data)
    if a in ('anova', 'nicv', 'snr', 'mia'):
        kw['partitions'] = None if case['partitions'] is None else list(case['partitions'])
    if a == 'mia':
        kw['bin_edges'] = [float(e) for e in case['edges']]
    return Monitored(selection_function=sf, model=_model(case), **kw)


def _set_bs(case, first_run):
    kind, val = case['batch']
    if kind == 'default':
        scared.set_batch_size(None)
    elif kind == 'int':
        scared.set_batch_size(int(val))
    elif kind == 'mb':
        scared.set_batch_size(float(val))
    else:
        scared.set_batch_size([tuple(int(x) for x in t) for t in val])


def check_case(ctx, case):
    logging.disable(logging.WARNING)
    try:
        _set_bs(case, None)
        _check(ctx, case)
    finally:
        scared.set_batch_size(None)
        logging.disable(logging.NOTSET)


def _frame(case):
    f = case['frame']
    return None if f is None else f


def _check(ctx, case):
    log = []
    an = _make_analysis(case, log)
    a = case['analysis']
    frame = _frame(case)
    chain = list(case['chain'])
    X_all, D_all = [], []
    multi_batch = tail_short = False
    first_block_data = None
    for ri, run in enumerate(case['runs']):
        samples, pt = run['samples'], run['plaintext']
        N = samples.shape[0]
        extra = {}
        for name in case.get('decoys') or []:
            extra[name] = np.roll(pt, 1, axis=1) ^ 0x5a        # other metadata the trace set happens to carry (all of it is handed to the selection function)
        stored = samples
        if case.get('big_endian') and samples.dtype.itemsize > 1:
            stored = samples.astype(samples.dtype.newbyteorder('>'))      # a trace set stored in non-native byte order: same values
        ths = dist.ram_ths(samples=stored, plaintext=pt, idx=np.arange(N, dtype='uint32'), **extra)
        if case.get('container_reused'):
            # the container was used before with another frame / preprocess chain; its documented attributes are then reassigned
            other_chain = [] if chain[:1] == ['square'] or not chain else ['reverse']
            cont = scared.Container(ths, frame=None if case['container_reused'] == 'both' else frame, preprocesses=_scared_chain(other_chain))
            with warnings.catch_warnings():
                warnings.simplefilter('ignore')
                for b_ in cont.batches():
                    b_.samples
            cont.preprocesses = _scared_chain(chain)
            if case['container_reused'] == 'both':
                cont.frame = frame if frame is not None else ...
        else:
            cont = scared.Container(ths, frame=frame, preprocesses=_scared_chain(chain))
        start = len(log)
        with warnings.catch_warnings():
            warnings.simplefilter('ignore')
            must(case, '%s %s run() #%d' % (a, case['mode'], ri + 1), an.run, cont)
        raw = samples if frame is None else samples[:, frame]
        X = _np_chain(raw, chain)
        D = _np_intermediate(case, pt)
        X_all.append(X)
        D_all.append(D)
        # (a) the recorded history
        o = 0
        blocks = log[start:]
        sizes = []
        for bi, (t, d) in enumerate(blocks):
            b = t.shape[0]
            sizes.append(b)
            if b < 1 or d.shape[0] != b:
                raise Violation('run #%d batch %d: %d trace rows fed with %d data rows' % (ri + 1, bi, b, d.shape[0]), case)
            if o + b > N:
                raise Violation('run #%d batch %d: rows %d..%d fed but the set has only %d traces (a trace is used more than once)' % (ri + 1, bi, o, o + b, N), case)
            exp_t = X[o:o + b]
            # a conversion of the batch to the analysis precision before the update is not observable through the results: allowed
            mtol = max(1e-10, 4 * float(np.finfo(case['precision']).eps)) if not case.get('mia_precision') else 1e-10
            if t.shape != exp_t.shape or not np.allclose(t.astype('float64'), exp_t.astype('float64'), rtol=mtol, atol=mtol, equal_nan=True):
                raise Violation('run #%d batch %d: the traces fed to the distinguisher are not rows %d..%d of preprocesses(samples[:, frame]) (frame %s, chain %s): got shape %s first row %s, expected shape %s first row %s' % (
                    ri + 1, bi, o, o + b, case['frame'], chain, t.shape, np.asarray(t[0]).tolist()[:6], exp_t.shape, np.asarray(exp_t[0]).tolist()[:6]), case)
            exp_d = D[o:o + b]
            if d.shape != exp_d.shape or not np.array_equal(d.astype('int64'), exp_d.astype('int64')):
                raise Violation('run #%d batch %d: the intermediate values fed with traces %d..%d are not model(selection_function(metadata)) of the same traces' % (ri + 1, bi, o, o + b), case)
            o += b
            if first_block_data is None:
                first_block_data = d
        if o != N:
            raise Violation('run #%d: only %d of %d traces were fed to the distinguisher (batch sizes %s)' % (ri + 1, o, N, sizes), case)
        if len(sizes) >= 2:
            multi_batch = True
            if sizes[-1] < sizes[0]:
                tail_short = True
        total = sum(x.shape[0] for x in X_all)
        if an.processed_traces != total:
            raise Violation('run #%d: processed_traces = %s, %d traces were given so far' % (ri + 1, an.processed_traces, total), case)
        # (b) results of everything so far
        _check_results(ctx, case, an, np.concatenate(X_all, axis=0), np.concatenate(D_all, axis=0), first_block_data)
    labels = ['analysis:' + a, 'mode:' + case['mode'], 'batch:' + case['batch'][0]] + (['big_endian_samples'] if case.get('big_endian') else []) + (['container_used_before_with_other_settings:' + case['container_reused']] if case.get('container_reused') else []) + (['decoy_metadata'] if case.get('decoys') else []) + [ 'frame:' + case['frame_kind'], 'chain:%d' % len(chain), 'runs:%d' % len(case['runs']),
              'model:' + case['model'], 'prec:' + case['precision']]
    if multi_batch:
        labels.append('multi_batch')
    if tail_short:
        labels.append('short_tail_batch')
    if case.get('convergence_step'):
        labels.append('with_convergence_step')
    if case.get('wide'):
        labels.append('wide_or_signed_intermediate_values')
    if any(r['samples'].shape[0] == 1 for r in case['runs']):
        labels.append('single_trace_run')
    nontrivial = multi_batch and (tail_short or case['frame'] is not None or len(chain) > 0)
    ctx.case(case, nontrivial, labels)


def _check_results(ctx, case, an, X, D, first_block_data):
    a = case['analysis']
    N, s = X.shape
    res = np.asarray(an.results)
    wshape = D.shape[1:]
    if res.shape != tuple(wshape) + (s,):
        raise Violation('%s: results shape %s, expected intermediate-value dims + (samples,) = %s' % (a, res.shape, tuple(wshape) + (s,)), case)
    d2 = D.reshape(N, -1)
    got = res.astype('float64').reshape(-1, s)
    integral = stats.is_integral(X)
    if a == 'mia':
        classes = list(case['partitions']) if case['partitions'] is not None else auto_classes(int(first_block_data.max()))
        edges = [float(e) for e in case['edges']]
        atol = 1e-9 if (res.dtype == np.float64 and (case.get('mia_precision') or case['precision']) != 'float32') else 5e-5
        for j in range(d2.shape[1]):
            labs = [int(v) for v in d2[:, j]]
            for i in range(s):
                vals, info = omia.column_mi([float(v) for v in X[:, i]], labs, classes, edges, 0.0)
                if vals[0] is None:
                    continue
                if not abs(got[j, i] - vals[0]) <= atol:
                    raise Violation('mia %s: entry %d sample %d = %r, one-shot mutual information over all %d traces is %r' % (case['mode'], j, i, got[j, i], N, vals[0]), case)
                ctx.count('cells_compared')
    else:
        eps = float(np.finfo(case['precision']).eps)
        if a == 'cpa':
            val, tol, defined = stats.pearson(X, d2, eps)
        elif a == 'dpa':
            val, tol, defined = stats.dpa(X, d2, eps)
        else:
            classes = list(case['partitions']) if case['partitions'] is not None else auto_classes(int(first_block_data.max()))
            val, tol, defined = stats.partitioned(a, X, d2, classes, eps)
        tol = tol * (1.0 if integral else float(N)) * 2
        ok = defined & (tol <= 0.05 * np.maximum(np.abs(np.nan_to_num(val)), 1e-30))
        bad = ok & ~(np.abs(got - val) <= tol)
        if bad.any():
            j, i = [int(v) for v in np.argwhere(bad)[0]]
            raise Violation('%s %s (%s): entry %d sample %d = %r, the one-shot statistic over all %d traces is %r (tol %.3g)' % (a, case['mode'], case['precision'], j, i, got[j, i], N, val[j, i], tol[j, i]), case)
        ctx.count('cells_compared', int(ok.sum()))
        ctx.count('cells_skipped_ill_conditioned_or_undefined', int((~ok).sum()))
    if case['mode'] == 'attack':
        scores = np.asarray(an.scores)
        exp = _np_disc(case['discriminant'], res)
        if scores.shape != exp.shape or not np.array_equal(scores, exp, equal_nan=True):
            raise Violation('%s attack: scores are not %s(results) (shape %s vs %s)' % (a, case['discriminant'], scores.shape, exp.shape), case)
        other = case.get('second_discriminant')
        if other:
            # the discriminant is a public attribute: after changing it, compute_results() must give other(results) (no new traces)
            an.discriminant = getattr(scared, other)
            with warnings.catch_warnings():
                warnings.simplefilter('ignore')
                must(case, 'compute_results() after changing the discriminant', an.compute_results)
            exp2 = _np_disc(other, np.asarray(an.results))
            if not np.array_equal(np.asarray(an.scores), exp2, equal_nan=True):
                raise Violation('%s attack: after attack.discriminant = %s and compute_results(), scores are not %s(results)' % (a, other, other), case)
            an.discriminant = getattr(scared, case['discriminant'])
            with warnings.catch_warnings():
                warnings.simplefilter('ignore')
                an.compute_results()


def replay(ctx, case):
    check_case(ctx, case)


# ------------------------------------------------------------------------------------------------
@st.composite
def cases(draw, analysis, precision, large=False):
    seed64 = draw(st.integers(0, 2 ** 63))
    g = np.random.Generator(np.random.PCG64(seed64))
    mode = draw(st.sampled_from(['attack', 'reverse']))
    L = draw(st.integers(2, 12))
    tdt = draw(st.sampled_from(['uint8', 'int16', 'float32', 'float64']))
    # batch size first, then N relative to it
    bkind = draw(st.sampled_from(['int', 'int', 'int', 'mb', 'table']))
    big = None
    if large:
        # the library's DEFAULT batch-size table (25000 traces up to 1000 samples, 5000 up to 5000 samples): sets just above one or two default batches
        big = draw(st.sampled_from([(25001, 2), (50001, 2), (30000, 3), (5003, 1001), (10001, 1002)]))
        L = big[1]
        tdt = 'uint8'
        bkind = 'default'
    # frame
    fk = draw(st.sampled_from(['none', 'none', 'slice', 'list', 'ndarray', 'range', 'mask'])) if not large else 'none'
    if fk == 'none':
        frame = None
    elif fk == 'slice':
        a_ = draw(st.integers(0, L - 2))
        frame = slice(a_, draw(st.integers(a_ + 2, L)), draw(st.sampled_from([None, 1, 2])))
    elif fk == 'mask':
        # a boolean mask over the samples (at least two selected)
        m_ = g.integers(0, 2, size=L).astype(bool)
        m_[[int(v) for v in g.choice(L, size=2, replace=False)]] = True
        frame = m_
    elif fk == 'range':
        a_ = draw(st.integers(0, L - 2))
        frame = range(a_, draw(st.integers(a_ + 2, L)), draw(st.sampled_from([1, 2, 3])))
    else:
        m = draw(st.integers(2, min(L + 2, 8)))
        idx = [int(v) for v in g.integers(0, L, size=m)]          # unsorted, may repeat
        frame = idx if fk == 'list' else np.array(idx, dtype='int64')
    flen = len(np.arange(L)[frame]) if frame is not None else L
    # chain
    chain = []
    cur_len, cur_is_u8 = flen, tdt == 'uint8'
    mag = {'uint8': 255.0, 'int16': 300.0}.get(tdt, 50.0)
    mag_max = 1e5 if precision == 'float32' else 1e40     # keep squared sums far from overflow in the requested precision
    if analysis == 'mia':
        mag_max = min(mag_max, 1e6)                       # integer-width bin edges must stay exactly representable
    for _ in range(draw(st.integers(0, 3)) if not large else 0):
        options = ['affine', 'reverse']
        if mag ** 2 <= mag_max:
            options.append('square')
        if mag ** 3 <= mag_max:
            options.append('pow3')
        if cur_len >= 3:
            options += ['evens', 'fftmod']
        if cur_is_u8 and cur_len <= 4:
            options.append('serialize')
        p = draw(st.sampled_from(options))
        chain.append(p)
        mag = mag ** 2 if p == 'square' else mag ** 3 if p == 'pow3' else mag * cur_len if p == 'fftmod' else 1.0 if p == 'serialize' else mag
        if p == 'evens':
            cur_len = (cur_len + 1) // 2
        elif p == 'fftmod':
            cur_len = int(math.ceil(cur_len / 2))
        elif p == 'serialize':
            cur_len *= 8
        cur_is_u8 = p == 'serialize'
    itemsize = np.dtype(tdt).itemsize
    if bkind == 'default':
        bs = 25000 if L <= 1000 else 5000
        batch = ['default', 0]
    elif bkind == 'int':
        bs = draw(st.integers(1, 25))
        batch = ['int', bs]
    elif bkind == 'mb':
        bs = draw(st.sampled_from([10, 20, 30]))
        batch = ['mb', (bs + 0.5) * flen * itemsize / 2 ** 20]
    else:
        eff = max(cur_len, flen)
        a_, b_ = draw(st.integers(1, 25)), draw(st.integers(1, 25))
        thr = draw(st.sampled_from([eff, eff + 1, max(1, eff - 1)]))
        batch = ['table', [[0, a_], [thr, b_]]]
        bs = a_ if eff < thr else b_
    runs = []
    for _ in range(draw(st.sampled_from([1, 1, 2, 3])) if not large else 1):
        style = draw(st.sampled_from(['less', 'equal', 'multiple', 'multiple+1', 'any', 'any']))
        kmul = draw(st.integers(2, 3))
        N = {'less': max(1, bs - draw(st.integers(1, 3))), 'equal': bs, 'multiple': kmul * bs, 'multiple+1': kmul * bs + 1}.get(style) or draw(st.integers(1, 70))
        N = max(1, min(N, 70))
        if large:
            N = big[0] + draw(st.integers(0, 2))
        if tdt == 'uint8':
            smp = g.integers(0, 256, size=(N, L)).astype(tdt)
        elif tdt == 'int16':
            smp = g.integers(-300, 301, size=(N, L)).astype(tdt)
        else:
            smp = (g.normal(size=(N, L)) * 10).astype(tdt)
        pt = g.integers(0, 256, size=(N, 4)).astype('uint8')
        # leak something so that statistics are not pure noise
        smp[:, L // 2] = (smp[:, L // 2].astype('float64') * 0.25 + (pt[:, 0] & 15)).astype(tdt)
        runs.append({'samples': smp, 'plaintext': pt})
    model = 'mono%d' % draw(st.integers(0, 3)) if analysis == 'dpa' else draw(st.sampled_from(['value', 'hw', 'mono1']))
    mask = draw(st.sampled_from([0x0F, 0x07, 0xFF])) if analysis in ('cpa', 'dpa') else draw(st.sampled_from([0x0F, 0x07, 0x03]))
    wk = draw(st.sampled_from(['all', 'all', 'slice', 'list']))
    words = None if wk == 'all' else slice(1, 3) if wk == 'slice' else [3, 0]
    if large:
        mask = 0x01 if analysis not in ('cpa', 'dpa') else mask
    wide = None
    if analysis == 'cpa' and model == 'value' and precision == 'float64' and draw(st.booleans()):
        wide = draw(st.sampled_from([[1, -4], [1, -200], [70000, 0], [300, 65000], [-1, 0]]))     # signed values, values beyond 16 bits
    case = {'kind': 'run', 'analysis': analysis, 'mode': mode, 'precision': precision, 'frame': frame, 'frame_kind': fk, 'chain': chain, 'batch': batch,
            'wide': wide, 'decoys': draw(st.lists(st.sampled_from(['data', 'key', 'ciphertext', 'foo']), max_size=2, unique=True)),
            'runs': runs, 'model': model, 'mask': mask, 'words': words, 'partitions': None, 'edges': None}
    if not large:
        # trace sets stored in non-native byte order are handled by CPA / DPA (the compiled kernels of the class-based distinguishers refuse them)
        case['big_endian'] = analysis in ('cpa', 'dpa') and tdt != 'uint8' and draw(st.integers(0, 3)) == 0
        case['container_reused'] = draw(st.sampled_from(['', '', '', 'preprocesses', 'both']))
    if mode == 'attack':
        ng = draw(st.integers(2, 5))
        case['guesses'] = sorted(set(int(v) for v in g.integers(0, 16, size=ng))) if draw(st.booleans()) else list(range(ng))
        case['discriminant'] = draw(st.sampled_from(DISCS))
        case['second_discriminant'] = draw(st.sampled_from([None, None] + DISCS))
        # an attack may also be asked for convergence traces: results and scores must not depend on it
        case['convergence_step'] = draw(st.sampled_from([None, None, None, 'bs', 'rand', 'rand']))
        if case['convergence_step'] == 'bs':
            case['convergence_step'] = bs * draw(st.integers(1, 3))
        elif case['convergence_step'] == 'rand':
            case['convergence_step'] = draw(st.integers(1, 40))
    if analysis in ('anova', 'nicv', 'snr', 'mia'):
        vmax = mask if model == 'value' else bin(mask).count('1') if model == 'hw' else 1
        if draw(st.sampled_from([True, True, False])):
            case['partitions'] = list(range(vmax + 1))
        else:
            case['partitions'] = None      # determined by the first batch (predicted from the recorded first block)
    if analysis == 'mia':
        case['mia_precision'] = draw(st.sampled_from([None, 'uint32', 'uint32', 'int64']))     # MIA's precision is the dtype of its counters
        allx = np.concatenate([_np_chain(r['samples'] if frame is None else r['samples'][:, frame], chain) for r in runs], axis=0).astype('float64')
        lo = math.floor(float(np.nanmin(allx))) - draw(st.integers(0, 1))
        hi = math.ceil(float(np.nanmax(allx))) + draw(st.integers(0, 1))
        nb = draw(st.sampled_from([2, 4, 8]))
        w = max(1, int(math.ceil((hi - lo) / nb)))
        case['edges'] = [lo + w * i for i in range(nb + 1)]
    return case


def unit_generated(ctx, analyses, precision, n, large=False):
    for i, a in enumerate(analyses):
        hyp.run(ctx, cases(a, precision, large), check_case, n, shrink_budget=(80 if not large else 4) if ctx.tier == 'quick' else (500 if not large else 20), seed_extra=i)


def units(tier):
    q = tier == 'quick'
    us = []
    for rep in range(2):
        for precision in ('float64', 'float32'):
            us.append({'name': 'cpa-dpa-%s-%d' % (precision, rep), 'fn': 'unit_generated', 'kwargs': {'analyses': ['cpa', 'dpa'], 'precision': precision, 'n': 130 if q else 1800}})
            us.append({'name': 'anova-nicv-%s-%d' % (precision, rep), 'fn': 'unit_generated', 'kwargs': {'analyses': ['anova', 'nicv'], 'precision': precision, 'n': 100 if q else 1400}})
            us.append({'name': 'snr-mia-%s-%d' % (precision, rep), 'fn': 'unit_generated', 'kwargs': {'analyses': ['snr', 'mia'], 'precision': precision, 'n': 100 if q else 1400}})
    us.append({'name': 'default-batch-table-large-sets', 'fn': 'unit_generated', 'kwargs': {'analyses': ['cpa', 'dpa', 'snr'], 'precision': 'float64', 'n': 3 if q else 30, 'large': True}})
    return us


def selftest():
    assert _popcount(np.array([0, 1, 255, 128], dtype='uint8')).tolist() == [0, 1, 8, 1]
    return stats.selftest() + ' ' + omia.selftest()


# dimensions added after the fourth and fifth round of seeded changes (DESIGN.md 8.3, 8.4); part of the rule reported in the evidence
RULE += ' Added with the fourth and fifth round of seeded changes: big-endian sample storage for CPA/DPA; containers used before with another preprocess chain / frame and then reassigned.'
