"""Core of the verification harness: Violation, case (de)serialisation, per-unit statistics context.

A *case* is a plain dict (JSON-native values plus numpy arrays).  Every check is a function
``check_case(ctx, case)`` that raises ``Violation`` when the property is broken on that case; the same
function is used by generated runs, by the corpus tier and by ``--replay``.
"""
import hashlib
import json
import os
import traceback

import numpy as np


class Violation(Exception):
    """The property under test does not hold on ``case``."""

    def __init__(self, msg, case=None, finding=None):
        super().__init__(msg)
        self.msg = msg
        self.case = case
        self.finding = finding  # name of a known (open) finding this failure matches, if any


class HarnessError(Exception):
    """Something is wrong with the harness itself (oracle self-test, generator…): exit 2, never a violation."""


# ------------------------------------------------------------------------------------------------
# serialisation

def encode(obj):
    """Case -> JSON-native structure (exact: float64 repr round-trips, float32 widened exactly)."""
    if isinstance(obj, np.ndarray):
        if obj.dtype.kind == 'f':
            data = obj.astype('float64').tolist()
        elif obj.dtype.kind in 'iub':
            data = obj.tolist()
        else:
            data = obj.tolist()
        return {'__nd__': data, 'dtype': obj.dtype.str, 'shape': list(obj.shape)}
    if isinstance(obj, (np.integer,)):
        return int(obj)
    if isinstance(obj, (np.floating,)):
        return float(obj)
    if isinstance(obj, (np.bool_,)):
        return bool(obj)
    if isinstance(obj, bytes):
        return {'__bytes__': obj.hex()}
    if isinstance(obj, dict):
        return {str(k): encode(v) for k, v in obj.items()}
    if isinstance(obj, tuple):
        return {'__tuple__': [encode(v) for v in obj]}
    if isinstance(obj, (list,)):
        return [encode(v) for v in obj]
    if isinstance(obj, slice):
        return {'__slice__': [obj.start, obj.stop, obj.step]}
    if obj is Ellipsis:
        return {'__ellipsis__': True}
    if isinstance(obj, range):
        return {'__range__': [obj.start, obj.stop, obj.step]}
    if isinstance(obj, np.dtype):
        return {'__dtype__': obj.str}
    return obj


def decode(obj):
    if isinstance(obj, dict):
        if '__nd__' in obj:
            return np.array(obj['__nd__'], dtype=np.dtype(obj['dtype'])).reshape(obj['shape'])
        if '__bytes__' in obj:
            return bytes.fromhex(obj['__bytes__'])
        if '__tuple__' in obj:
            return tuple(decode(v) for v in obj['__tuple__'])
        if '__slice__' in obj:
            return slice(*obj['__slice__'])
        if '__ellipsis__' in obj:
            return Ellipsis
        if '__range__' in obj:
            return range(*obj['__range__'])
        if '__dtype__' in obj:
            return np.dtype(obj['__dtype__'])
        return {k: decode(v) for k, v in obj.items()}
    if isinstance(obj, list):
        return [decode(v) for v in obj]
    return obj


def _feed(h, obj):
    if isinstance(obj, np.ndarray):
        h.update(b'A' + obj.dtype.str.encode() + repr(obj.shape).encode())
        h.update(np.ascontiguousarray(obj).tobytes())
    elif isinstance(obj, dict):
        h.update(b'D')
        for k in sorted(obj, key=str):
            h.update(str(k).encode() + b'=')
            _feed(h, obj[k])
    elif isinstance(obj, (list, tuple)):
        h.update(b'L')
        for v in obj:
            _feed(h, v)
            h.update(b',')
    elif isinstance(obj, bytes):
        h.update(b'B' + obj)
    else:
        h.update(repr(obj).encode())


def digest(case):
    h = hashlib.blake2b(digest_size=8)
    _feed(h, case)
    return h.digest()


def summarize(obj, limit=48):
    """Readable, size-bounded rendering of a case for evidence samples."""
    if isinstance(obj, np.ndarray):
        if obj.size <= limit:
            return {'dtype': str(obj.dtype), 'shape': list(obj.shape), 'values': encode(obj)['__nd__']}
        flat = obj.reshape(-1)[:limit]
        return {'dtype': str(obj.dtype), 'shape': list(obj.shape), 'first_values': encode(flat)['__nd__'], 'truncated': True}
    if isinstance(obj, dict):
        return {str(k): summarize(v, limit) for k, v in obj.items()}
    if isinstance(obj, (list, tuple)):
        if len(obj) > limit:
            return [summarize(v, limit) for v in obj[:limit]] + ['… %d more' % (len(obj) - limit)]
        return [summarize(v, limit) for v in obj]
    if isinstance(obj, bytes):
        return obj.hex()
    e = encode(obj)
    return e


def derive_seed(*parts):
    h = hashlib.blake2b(repr(parts).encode(), digest_size=8).digest()
    return int.from_bytes(h, 'big') & 0x7FFFFFFFFFFFFFFF


# ------------------------------------------------------------------------------------------------
# per-unit context

class Ctx:
    """Statistics collector handed to every check function.

    ``ctx.case(case, nontrivial, labels)`` is called once per executed case by the check.
    """

    MAX_SAMPLES_PER_LABEL = 1
    MAX_SAMPLES = 6

    def __init__(self, prop, unit, seed, tier, trace_file=None):
        self.prop = prop
        self.unit = unit
        self.seed = seed
        self.tier = tier
        self.evaluations = 0
        self.nontrivial = set()
        self.classes = {}
        self.samples = []
        self._sample_labels = set()
        self.counters = {}
        self.violations = []
        self.known = {}
        self.recording = True
        self.trace_file = trace_file
        self.notes = {}

    # -- bookkeeping ------------------------------------------------------------------------------
    def begin(self, case):
        """Called before executing a case: persists it when crash tracing is on."""
        if self.trace_file:
            with open(self.trace_file, 'w') as f:
                json.dump(encode(case), f)
                f.flush()
                os.fsync(f.fileno())

    def case(self, case, nontrivial, labels=(), key=None):
        if not self.recording:
            return
        self.evaluations += 1
        for lab in labels:
            self.classes[lab] = self.classes.get(lab, 0) + 1
        if nontrivial:
            self.nontrivial.add(digest(case if key is None else key))
        if len(self.samples) < self.MAX_SAMPLES:
            new = [lab for lab in labels if lab not in self._sample_labels]
            if (nontrivial and (new or not self.samples)) or (not self.samples and self.evaluations > 50):
                self._sample_labels.update(labels)
                self.samples.append(summarize(case))

    def count(self, name, n=1):
        if self.recording:
            self.counters[name] = self.counters.get(name, 0) + n

    def note_max(self, name, value):
        if self.recording:
            v = float(value)
            if name not in self.notes or v > self.notes[name]:
                self.notes[name] = v

    def known_finding(self, name, what):
        self.known[name] = what
        self.count('excluded_known:' + name)

    def result(self):
        return {
            'unit': self.unit, 'seed': self.seed, 'evaluations': self.evaluations,
            'classes': self.classes, 'samples': self.samples, 'counters': self.counters,
            'notes': self.notes, 'known': self.known,
            'violations': [{'msg': v.msg, 'case': encode(v.case), 'finding': v.finding} for v in self.violations],
        }


def must(case, what, fn, *args, **kwargs):
    """Call code under test where the property requires it to succeed: any exception is a violation."""
    try:
        return fn(*args, **kwargs)
    except Violation:
        raise
    except Exception as e:  # noqa
        tb = traceback.extract_tb(e.__traceback__)
        where = '%s:%d' % (os.path.basename(tb[-1].filename), tb[-1].lineno) if tb else '?'
        raise Violation('%s raised %s: %s (at %s)' % (what, type(e).__name__, str(e)[:200], where), case)
