"""Fan a check out over worker processes, collect statistics, write evidence, print the verdict."""
import hashlib
import importlib
import json
import os
import shutil
import subprocess
import sys
import tempfile
import time

from .core import HarnessError

HERE = os.path.dirname(os.path.dirname(os.path.abspath(__file__)))
REPO = os.environ.get('VERIF_REPO', '/repo')


def _env(threads):
    env = dict(os.environ)
    env['PYTHONPATH'] = REPO + os.pathsep + HERE + (os.pathsep + os.path.join(HERE, '.deps') if os.path.isdir(os.path.join(HERE, '.deps')) else '')
    env['PYTHONHASHSEED'] = '0'
    env['SCARED_VERIF'] = '1'
    env['NUMBA_NUM_THREADS'] = str(threads)
    env['OMP_NUM_THREADS'] = '1'
    env['OPENBLAS_NUM_THREADS'] = '1'
    env['MKL_NUM_THREADS'] = '1'
    env['OMP_WAIT_POLICY'] = 'PASSIVE'
    env['KMP_BLOCKTIME'] = '0'
    env['PYTHONWARNINGS'] = 'ignore'
    env['PYTHONDONTWRITEBYTECODE'] = '1'
    env.pop('VERIF_TRACE_FILE', None)
    return env


def load_findings():
    path = os.path.join(HERE, 'known_findings.json')
    if not os.path.exists(path):
        return {'fixed': [], 'open': []}
    with open(path) as f:
        return json.load(f)


def open_findings(prop):
    return {e['name']: e for e in load_findings().get('open', []) if e.get('property') == prop}


def _jsonsafe(o):
    if isinstance(o, float):
        if o != o:
            return 'NaN'
        if o in (float('inf'), float('-inf')):
            return 'inf' if o > 0 else '-inf'
        return o
    if isinstance(o, dict):
        return {k: _jsonsafe(v) for k, v in o.items()}
    if isinstance(o, (list, tuple)):
        return [_jsonsafe(v) for v in o]
    return o


class _Job:
    def __init__(self, prop, what, tier, seed, tmp, idx, threads, label, trace=False):
        self.what, self.label, self.threads = what, label, threads
        self.out = os.path.join(tmp, 'out-%s%s.json' % (idx, '-trace' if trace else ''))
        self.log = os.path.join(tmp, 'log-%s%s.txt' % (idx, '-trace' if trace else ''))
        self.trace_file = os.path.join(tmp, 'trace-%s.json' % idx) if trace else None
        self.args = [sys.executable, '-m', 'vlib.worker', prop, what, tier, str(seed), self.out]
        self.proc = None
        self.t0 = None

    def start(self):
        env = _env(self.threads)
        if self.trace_file:
            env['VERIF_TRACE_FILE'] = self.trace_file
        self.t0 = time.time()
        self.proc = subprocess.Popen(self.args, cwd=HERE, env=env, stdout=open(self.log, 'w'), stderr=subprocess.STDOUT)

    def result(self):
        if os.path.exists(self.out):
            try:
                with open(self.out) as f:
                    return json.load(f)
            except Exception:
                return None
        return None

    def tail(self, n=3000):
        try:
            with open(self.log) as f:
                return f.read()[-n:]
        except Exception:
            return ''


def _run_jobs(jobs, max_par, timeout):
    pending = list(jobs)
    running = []
    slots = max_par
    while pending or running:
        while pending and (not running or sum(j.threads_cost for j in running) + pending[0].threads_cost <= slots):
            j = pending.pop(0)
            j.start()
            running.append(j)
        time.sleep(0.05)
        for j in list(running):
            rc = j.proc.poll()
            if rc is not None:
                running.remove(j)
                j.rc = rc
                j.timed_out = False
            elif time.time() - j.t0 > timeout:
                j.proc.kill()
                j.proc.wait()
                running.remove(j)
                j.rc = None
                j.timed_out = True


def run_check(prop, tier, seed, replay=None):
    t0 = time.time()
    sys.path.insert(0, HERE)
    mod = importlib.import_module('checks.' + prop.lower())
    jobs_n = int(os.environ.get('VERIF_JOBS', '16'))
    timeout = float(os.environ.get('VERIF_UNIT_TIMEOUT', '1500' if tier == 'quick' else '14000'))
    tmp = tempfile.mkdtemp(prefix='verif-%s-' % prop)
    try:
        return _run_check(mod, prop, tier, seed, replay, tmp, jobs_n, timeout, t0)
    finally:
        shutil.rmtree(tmp, ignore_errors=True)


def _run_check(mod, prop, tier, seed, replay, tmp, jobs_n, timeout, t0):
    # oracle self-test in a child (it may import numba etc.); failure = harness error
    st = subprocess.run([sys.executable, '-c',
                         'import importlib,sys; m=importlib.import_module("checks.%s"); f=getattr(m,"selftest",None); print("selftest", f() if f else "none")' % prop.lower()],
                        cwd=HERE, env=_env(2), capture_output=True, text=True)
    if st.returncode != 0:
        print('HARNESS-ERROR property=%s oracle self-test failed:\n%s' % (prop, (st.stdout + st.stderr)[-3000:]))
        return 2
    selftest_note = st.stdout.strip().splitlines()[-1] if st.stdout.strip() else ''

    jobs = []
    rerun = None
    if replay:
        try:
            with open(replay) as f:
                payload = json.load(f)
            rerun = payload.get('case', payload) if isinstance(payload, dict) else None
            rerun = rerun if isinstance(rerun, dict) and 'rerun_unit' in rerun else None
        except Exception:
            rerun = None
    if rerun is not None:
        # replay of "a worker crashed while running this unit": re-execute the unit, up to three attempts
        for attempt in range(3):
            j = _Job(prop, rerun['rerun_unit'], rerun.get('tier', tier), int(rerun.get('seed', seed)), tmp, 'rerun%d' % attempt, 4, rerun.get('unit', 'rerun'))
            j.threads_cost = 16
            jobs.append(j)
    elif replay:
        j = _Job(prop, 'replay:' + os.path.abspath(replay), tier, seed, tmp, 'replay', 4, 'replay')
        j.threads_cost = 1
        jobs.append(j)
    else:
        units = mod.units(tier)
        if os.path.isdir(os.path.join(HERE, 'corpus', prop)):
            j = _Job(prop, 'corpus', tier, seed, tmp, 'corpus', 4, 'corpus')
            j.threads_cost = 1
            jobs.append(j)
        for i, u in enumerate(units):
            j = _Job(prop, 'unit:%d' % i, tier, seed, tmp, i, u.get('threads', 2), u['name'])
            j.threads_cost = u.get('cost', 1)
            jobs.append(j)
    _run_jobs(jobs, jobs_n, timeout)

    harness_errors = []
    violations = []
    results = []
    crash_investigations = 0
    for j in jobs:
        res = j.result()
        if j.timed_out:
            harness_errors.append('unit %s exceeded the watchdog (%ds): inconclusive' % (j.label, timeout))
            continue
        if res is None or (j.rc is not None and j.rc != 0 and not (res and res.get('ok'))):
            if j.rc is not None and j.rc < 0 or res is None:
                # the worker died (signal / abort inside native code): re-run with case tracing to find the case
                # (memory corruption does not always crash at the same place: the traced re-run is attempted up to three times;
                #  only the first two crashed units are investigated case by case, further ones are reported at unit level)
                crash_investigations += 1
                # SIGKILL / SIGTERM / SIGINT never originate in the library: they come from the kernel's out-of-memory killer or from an operator.
                # Such a death is inconclusive (exit 2) unless a traced re-run pins it to a case.
                external = j.rc is not None and -j.rc in (9, 15, 2)
                if crash_investigations > 2 and j.rc is not None and j.rc < 0 and external:
                    harness_errors.append('unit %s was killed from outside (signal %d): inconclusive' % (j.label, -j.rc))
                    continue
                if crash_investigations > 2 and j.rc is not None and j.rc < 0:
                    violations.append({'msg': 'worker process killed by signal %d while running unit %s: a crash of the library is never a clean rejection' % (-j.rc, j.label),
                                       'case': {'rerun_unit': j.what, 'unit': j.label, 'tier': tier, 'seed': seed, 'signal': -j.rc}, 'finding': None, 'unit': j.label})
                    continue
                for attempt in range(3):
                    tj = _Job(prop, j.what, tier, seed, tmp, '%s-try%d' % (j.label.replace('/', '_'), attempt), j.threads, j.label, trace=True)
                    tj.threads_cost = 1
                    _run_jobs([tj], 1, timeout)
                    tres = tj.result()
                    if tres is None and os.path.exists(tj.trace_file):
                        break
                case = None
                if tres is None and os.path.exists(tj.trace_file):
                    try:
                        with open(tj.trace_file) as f:
                            case = json.load(f)
                    except Exception:      # the process died while the case was being persisted
                        case = None
                if case is not None:
                    violations.append({'msg': 'worker process died (rc=%s) while executing this case: a crash is never a clean rejection' % tj.rc,
                                       'case': case, 'finding': None, 'unit': j.label})
                    continue
                if tres is not None and tres.get('ok'):
                    if j.rc is not None and j.rc < 0 and external:
                        harness_errors.append('unit %s was killed from outside (signal %d) and the traced re-run completed: inconclusive' % (j.label, -j.rc))
                    elif j.rc is not None and j.rc < 0:
                        # killed by a signal inside native code (abort / segmentation fault) and not pinned to one case by three traced re-runs:
                        # memory corruption crashes at varying places. The replay file names the unit; --replay re-executes it (several attempts).
                        violations.append({'msg': 'worker process killed by signal %d while running unit %s (not reproduced case by case in 3 traced re-runs): a crash of the library is never a clean rejection' % (-j.rc, j.label),
                                           'case': {'rerun_unit': j.what, 'unit': j.label, 'tier': tier, 'seed': seed, 'signal': -j.rc}, 'finding': None, 'unit': j.label})
                    else:
                        harness_errors.append('unit %s died (rc=%s) but the traced re-run completed: not reproducible\n%s' % (j.label, j.rc, j.tail()))
                    res = tres
                elif j.rc is not None and j.rc < 0 and external:
                    harness_errors.append('unit %s was killed from outside (signal %d): inconclusive' % (j.label, -j.rc))
                    continue
                elif j.rc is not None and j.rc < 0:
                    violations.append({'msg': 'worker process killed by signal %d while running unit %s (the failing case could not be persisted): a crash of the library is never a clean rejection' % (-j.rc, j.label),
                                       'case': {'rerun_unit': j.what, 'unit': j.label, 'tier': tier, 'seed': seed, 'signal': -j.rc}, 'finding': None, 'unit': j.label})
                    continue
                else:
                    harness_errors.append('unit %s died (rc=%s) and no case could be captured\n%s' % (j.label, j.rc, j.tail()))
                    continue
        if not res.get('ok'):
            harness_errors.append('unit %s: %s' % (j.label, res.get('harness_error', '?') + '\n' + j.tail(1500)))
            continue
        res['_dig'] = j.out + '.dig'
        results.append(res)
        for v in res['violations']:
            v['unit'] = j.label
            violations.append(v)

    # aggregate
    evaluations = sum(r['evaluations'] for r in results)
    digests = set()
    for r in results:
        if os.path.exists(r['_dig']):
            with open(r['_dig'], 'rb') as f:
                b = f.read()
            digests.update(b[i:i + 8] for i in range(0, len(b), 8))
    classes, counters, notes, known = {}, {}, {}, {}
    samples = []
    for r in results:
        for k, v in r['classes'].items():
            classes[k] = classes.get(k, 0) + v
        for k, v in r['counters'].items():
            counters[k] = counters.get(k, 0) + v
        for k, v in r['notes'].items():
            notes[k] = max(notes.get(k, v), v)
        known.update(r['known'])
        for s in r['samples']:
            if len(samples) < 8:
                samples.append({'unit': r['unit'], 'case': s})
    listed = open_findings(prop)
    real = []
    for v in violations:
        if v.get('finding') and v['finding'] in listed:
            known[v['finding']] = listed[v['finding']].get('what', v['msg'])
        else:
            real.append(v)

    os.makedirs(os.path.join(HERE, 'replays'), exist_ok=True)
    lines = []
    for v in real:
        payload = {'property': prop, 'message': v['msg'], 'unit': v.get('unit'), 'seed': seed, 'tier': tier, 'case': v['case']}
        dg = hashlib.blake2b(json.dumps(v['case'], sort_keys=True).encode(), digest_size=6).hexdigest()
        path = os.path.join(HERE, 'replays', '%s-%s.json' % (prop, dg))
        with open(path, 'w') as f:
            json.dump(payload, f)
        lines.append((path, v))

    wall = time.time() - t0
    if not replay:
        ev = {
            'property_id': prop, 'tier': tier, 'seed': seed, 'level': mod.LEVEL,
            'coverage': {
                'evaluations': evaluations, 'distinct_nontrivial': len(digests), 'rule': mod.RULE,
                'samples': samples, 'classes': dict(sorted(classes.items())), 'counters': dict(sorted(counters.items())),
                'notes': notes, 'units': [{'name': r['unit'], 'seed': r['seed'], 'evaluations': r['evaluations'], 'wall_s': round(r['wall_s'], 1)} for r in results],
                'exhaustive': bool(getattr(mod, 'EXHAUSTIVE', False)),
                'oracle_selftest': selftest_note,
                'known_findings_reported': sorted(known),
                'harness_errors': harness_errors,
            },
            'assumptions': list(getattr(mod, 'ASSUMPTIONS', [])),
            'wall_s': round(wall, 2), 'violations': len(real),
        }
        # evidence describes /repo itself: runs against a scratch tree (VERIF_REPO, seeded-change verification) write theirs elsewhere
        evdir = os.path.join(HERE, 'evidence') if os.path.realpath(REPO) == '/repo' else os.path.join(REPO, '.verif-evidence')
        os.makedirs(evdir, exist_ok=True)
        with open(os.path.join(evdir, prop + '.json'), 'w') as f:
            json.dump(_jsonsafe(ev), f, indent=1, allow_nan=False)

    for name in sorted(known):
        print('KNOWN-FINDING: property=%s %s' % (prop, known[name]))
    for path, v in lines:
        print('  %s [unit %s]: %s' % (prop, v.get('unit'), v['msg']))
        print('VIOLATION property=%s replay=%s' % (prop, path))
    for e in harness_errors:
        print('HARNESS-ERROR property=%s %s' % (prop, e))
    print('%s %s seed=%d: %d cases, %d distinct non-trivial, %d violation(s), %.1fs' % (prop, tier, seed, evaluations, len(digests), len(real), wall))
    if real:
        return 1
    if harness_errors:
        return 2
    return 0
