"""Shared Hypothesis strategies and deterministic payload expansion."""
import numpy as np
from hypothesis import strategies as st
from hypothesis.extra import numpy as hnp

INT_TRACE_DTYPES = ['uint8', 'int8', 'uint16', 'int16', 'int32']
FLOAT_TRACE_DTYPES = ['float32', 'float64']
TRACE_DTYPES = INT_TRACE_DTYPES + FLOAT_TRACE_DTYPES
CLASS_DTYPES = ['uint8', 'uint16', 'uint32', 'int8', 'int16', 'int32']


def rng(*key):
    """numpy PCG64 generator that is a pure function of ``key`` (used for enumerated units and bulk payloads)."""
    from .core import derive_seed
    return np.random.Generator(np.random.PCG64(derive_seed(*key)))


def int_matrix(rows, cols, lo, hi, dtype):
    """small integer matrix, elements drawn individually (shrinks towards lo / zeros, produces ties and constant columns)"""
    info = np.iinfo(dtype) if np.dtype(dtype).kind in 'iu' else None
    if info is not None:
        lo = max(lo, info.min)
        hi = min(hi, info.max)
    return hnp.arrays(dtype=dtype, shape=(rows, cols), elements=st.integers(lo, hi))


@st.composite
def small_traces(draw, rows, cols, maxabs=50, dtypes=None):
    dt = draw(st.sampled_from(dtypes or TRACE_DTYPES))
    if np.dtype(dt).kind == 'f':
        ints = draw(hnp.arrays(dtype='int64', shape=(rows, cols), elements=st.integers(-maxabs, maxabs)))
        return ints.astype(dt)
    lo = 0 if np.dtype(dt).kind == 'u' else -maxabs
    return draw(int_matrix(rows, cols, lo, maxabs, dt))


def expand_payload(seed64, shape, kind, **kw):
    """Deterministic bulk payload from a drawn 64-bit value."""
    g = np.random.Generator(np.random.PCG64(int(seed64)))
    if kind == 'int':
        return g.integers(kw['lo'], kw['hi'] + 1, size=shape).astype(kw.get('dtype', 'int64'))
    if kind == 'normal':
        return (g.normal(size=shape) * kw.get('scale', 1.0) + kw.get('offset', 0.0)).astype(kw.get('dtype', 'float64'))
    if kind == 'uniform':
        return g.uniform(kw['lo'], kw['hi'], size=shape).astype(kw.get('dtype', 'float64'))
    raise ValueError(kind)


LAYOUTS = ['C', 'C', 'F', 'strided', 'negstride']


def relayout(arr, kind):
    """an array equal to ``arr`` (same shape, dtype, values) with another memory layout"""
    arr = np.asarray(arr)
    if kind == 'F':
        return np.asfortranarray(arr)
    if kind == 'strided' and arr.ndim >= 1 and arr.size:
        big = np.zeros(arr.shape[:-1] + (2 * arr.shape[-1],), dtype=arr.dtype)
        big[..., ::2] = arr
        return big[..., ::2]
    if kind == 'negstride' and arr.ndim >= 1:
        return arr[::-1].copy()[::-1]
    return arr


def layout_of(case, salt=0):
    """memory layout for the arrays of this case: a deterministic function of the case itself (so replays use the same one)"""
    from .core import digest
    return LAYOUTS[(digest(case)[0] + salt) % len(LAYOUTS)]


def L(case, arr, salt=0):
    """``arr`` with the memory layout chosen for this case (equal values; C order, Fortran order, strided or negative-stride view)"""
    return relayout(arr, layout_of(case, salt))


def _perturb(arr):
    a = np.asarray(arr)
    if a.dtype.kind in 'iu':
        return ((np.roll(a, 1, axis=-1).astype('int64') ^ 0x5a) & 0xFF).astype(a.dtype) if a.ndim else a
    return np.roll(a, 1, axis=-1) if a.ndim else a


def pure_call(case, what, fn, arrays, kwargs=None, salt=0, refill=False):
    """Call a function that is specified as PURE in its array arguments, inside a small history chosen from the case digest:

    * prime: the same array OBJECTS are first used for a call with other contents and then refilled in place
      (an identity-keyed cache or a retained reference to the arguments must not leak into the real call);
    * hold:  after the real call, the function is called again with other arguments of the same shapes, and only then is the
      first result handed back for comparison (a result that is a view of an internal work buffer would have changed).
    Returns the result of the real call.
    """
    from .core import digest, must
    kwargs = kwargs or {}
    mode = digest(case)[3 + salt] % 4           # 0: plain, 1: prime, 2: hold, 3: prime + hold
    args = [np.asarray(a) for a in arrays]
    if mode in (1, 3):
        bufs = [np.array(_perturb(a), copy=True) for a in args]
        try:
            fn(*bufs, **kwargs)
        except Exception:
            pass                                 # the priming call is not the call under test
        for b, a in zip(bufs, args):
            b[...] = a
        args = bufs
    out = must(case, what, fn, *args, **kwargs)
    if refill and isinstance(out, np.ndarray) and digest(case)[5 + salt] % 2 == 0:
        # the caller refills the arrays it passed (next device, next acquisition) while it still holds the result: a result is a value,
        # it must not follow the caller's buffers
        from .core import Violation
        snap = np.array(out, copy=True)
        saved = [np.array(a, copy=True) for a in args]
        for a in args:
            if a.ndim and a.flags.writeable:
                a[...] = _perturb(a)
        same = np.array_equal(out, snap)
        for a, b in zip(args, saved):
            if a.ndim and a.flags.writeable:
                a[...] = b
        if not same:
            raise Violation('%s: the returned array changed when the caller refilled the arrays it had passed (the result aliases an argument)' % what, case)
    if mode in (2, 3):
        try:
            fn(*[np.array(_perturb(a), copy=True) for a in args], **kwargs)
        except Exception:
            pass
    return out, ['plain', 'primed', 'held', 'primed+held'][mode]


def npint(case, value, salt=0):
    """an integer argument as a plain Python int or as a numpy integer scalar (derived from the case): what a caller looping over numpy arrays passes"""
    from .core import digest
    if value is None:
        return None
    kind = [None, None, None, 'int64', 'int32', 'uint8'][digest(case)[4 + salt] % 6]
    if kind is None or (kind == 'uint8' and not 0 <= int(value) < 256):
        return value
    return np.dtype(kind).type(value)
