"""Factories for every distinguisher kind of scared, with a uniform update/compute face for the harness."""
import numpy as np

import scared
from scared import distinguishers as _d
from scared.distinguishers import template as _tpl, partitioned as _part

CHEAP = ('cpa', 'cpa_alt', 'dpa')
PARTITIONED = ('anova', 'nicv', 'snr')
CLASS_BASED = PARTITIONED + ('mia', 'tbuild')
ALL_STANDALONE = CHEAP + CLASS_BASED


class TemplateBuildDistinguisher(_part.PartitionedDistinguisherBase, _tpl._TemplateBuildDistinguisherMixin):
    """Stand-alone use of the template build mixin (the property lists 'template build' as a distinguisher)."""


_CLS = {
    'cpa': lambda: scared.CPADistinguisher,
    'cpa_alt': lambda: scared.CPAAlternativeDistinguisher,
    'dpa': lambda: scared.DPADistinguisher,
    'anova': lambda: scared.ANOVADistinguisher,
    'nicv': lambda: scared.NICVDistinguisher,
    'snr': lambda: scared.SNRDistinguisher,
    'mia': lambda: scared.MIADistinguisher,
    'tbuild': lambda: TemplateBuildDistinguisher,
}


def make(kind, precision='float32', partitions=None, bin_edges=None, bins_number=None):
    cls = _CLS[kind]()
    if kind in CHEAP:
        return cls(precision=precision)
    if kind == 'mia':
        kw = {}
        if bin_edges is not None:
            kw['bin_edges'] = bin_edges
        if bins_number is not None:
            kw['bins_number'] = bins_number
        return cls(partitions=partitions, **kw)
    return cls(partitions=partitions, precision=precision)


def force_kernel(obj, idx):
    """Force partitioned/template kernel choice for the next update without a repo hook (timings trick)."""
    obj._timings = [-2, -1] if idx == 0 else [1, -1]


def same(a, b):
    """bit-identical incl. NaN positions and shape/dtype"""
    a = np.asarray(a)
    b = np.asarray(b)
    return a.shape == b.shape and a.dtype == b.dtype and np.array_equal(a, b, equal_nan=True)


def ram_ths(samples, **metadata):
    from scared import traces
    return traces.formats.read_ths_from_ram(samples=samples, **metadata)


def enable_lut_cache():
    """Harness-side memoisation of scared's value->class-index lookup builder.

    ``partitioned._define_lut_func(partitions)`` JIT-compiles a fresh numba.vectorize closure for every instance
    (~0.3-0.6 s).  The function it returns depends on ``partitions`` only, so it is memoised per (dtype, bytes) of the
    class list: the real builder still runs (once) for every distinct class list, the kernels and everything else are
    untouched.  Disable with VERIF_LUT_CACHE=0.
    """
    import os
    if os.environ.get('VERIF_LUT_CACHE', '1') == '0':
        return False
    orig = getattr(_part, '_define_lut_func', None)
    if orig is None or getattr(orig, '_verif_cached', False):
        return orig is not None
    cache = {}

    def cached(partitions):
        arr = np.asarray(partitions)
        key = (arr.dtype.str, arr.shape, arr.tobytes())
        if key not in cache:
            cache[key] = orig(partitions)
        return cache[key]
    cached._verif_cached = True
    cached._verif_cache = cache
    _part._define_lut_func = cached
    return True


enable_lut_cache()
