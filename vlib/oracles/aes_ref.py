# independent AES reference (FIPS-197), bytes as Python ints, state = list of 16 bytes in input order (column-major: s[r+4c])
def xt(a): a<<=1; return (a^0x11b)&0xff if a&0x100 else a
def gmul(a,b):
    r=0
    while b:
        if b&1: r^=a
        a=xt(a); b>>=1
    return r
def _inv(x):
    if x==0: return 0
    r=1
    for _ in range(254): r=gmul(r,x)   # x^254 = x^-1
    return r
def _aff(x):
    r=0
    for i in range(8):
        bit=((x>>i)^(x>>((i+4)%8))^(x>>((i+5)%8))^(x>>((i+6)%8))^(x>>((i+7)%8))^(0x63>>i))&1
        r|=bit<<i
    return r
SB=[_aff(_inv(x)) for x in range(256)]; ISB=[0]*256
for i,v in enumerate(SB): ISB[v]=i
def sub(s): return [SB[b] for b in s]
def isub(s): return [ISB[b] for b in s]
def shift(s): return [s[(r+4*((c+r)%4))] for c in range(4) for r in range(4)]
def ishift(s): return [s[(r+4*((c-r)%4))] for c in range(4) for r in range(4)]
def mixcol(c,m): return [gmul(c[0],m[(0-r)%4])^gmul(c[1],m[(1-r)%4])^gmul(c[2],m[(2-r)%4])^gmul(c[3],m[(3-r)%4]) for r in range(4)]
def mix(s): return [b for c in range(4) for b in mixcol(s[4*c:4*c+4],[2,3,1,1])]
def imix(s): return [b for c in range(4) for b in mixcol(s[4*c:4*c+4],[14,11,13,9])]
def ark(s,k): return [a^b for a,b in zip(s,k)]
def expand(key):
    nk=len(key)//4; nr=nk+6; w=[list(key[4*i:4*i+4]) for i in range(nk)]; rc=1
    for i in range(nk,4*(nr+1)):
        t=list(w[i-1])
        if i%nk==0:
            t=t[1:]+t[:1]; t=[SB[b] for b in t]; t[0]^=rc; rc=xt(rc)
        elif nk>6 and i%nk==4: t=[SB[b] for b in t]
        w.append([a^b for a,b in zip(w[i-nk],t)])
    return w  # list of 4-byte columns
def round_keys(key):
    w=expand(key); return [sum(w[4*r:4*r+4],[]) for r in range(len(w)//4)]
def enc_ops(key):
    rk=round_keys(key); nr=len(rk)-1; ops=[('ark',rk[0])]
    for r in range(1,nr): ops+=[('sub',None),('shift',None),('mix',None),('ark',rk[r])]
    ops+=[('sub',None),('shift',None),('ark',rk[nr])]
    return ops
def dec_ops(key):
    rk=round_keys(key); nr=len(rk)-1; ops=[('ark',rk[nr]),('ishift',None),('isub',None)]
    for r in range(nr-1,0,-1): ops+=[('ark',rk[r]),('imix',None),('ishift',None),('isub',None)]
    ops+=[('ark',rk[0])]
    return ops
F={'sub':sub,'shift':shift,'mix':mix,'isub':isub,'ishift':ishift,'imix':imix}
def run(state, ops, nops=None):
    s=list(state)
    for name,k in ops[:nops]:
        s = ark(s,k) if name=='ark' else F[name](s)
    return s
def enc_prefix_len(nr, rnd, step):
    # scared: round0=[id,id,id,ark]; rounds 1..nr-1=[sub,shift,mix,ark]; round nr=[sub,shift,id,ark]
    if rnd==0: return 1 if step==3 else 0
    base=1+4*(rnd-1)
    if rnd<nr: return base+step+1
    return base+[1,2,2,3][step]
def dec_prefix_len(nr, rnd, step):
    # scared: round0=[ark,id,ishift,isub]; rounds 1..nr-1=[ark,imix,ishift,isub]; round nr=[ark,id,id,id]
    if rnd==0: return [1,1,2,3][step]
    base=3+4*(rnd-1)
    if rnd<nr: return base+step+1
    return base+1
