# independent AES reference (FIPS-197), bytes as Python ints, state = list of 16 bytes in input order (column-major: s[r+4c])
def xt(a): a<<=1; return (a^0x11b)&0xff if a&0x100 else a
def gmul(a,b):
    r=0
    while b:
        if b&1: r^=a
        a=xt(a); b>>=1
    return r
def _inv(x):
    if x==0: return 0
    r=1
    for _ in range(254): r=gmul(r,x)   # x^254 = x^-1
    return r
def _aff(x):
    r=0
    for i in range(8):
        bit=((x>>i)^(x>>((i+4)%8))^(x>>((i+5)%8))^(x>>((i+6)%8))^(x>>((i+7)%8))^(0x63>>i))&1
        r|=bit<<i
    return r
SB=[_aff(_inv(x)) for x in range(256)]; ISB=[0]*256
for i,v in enumerate(SB): ISB[v]=i
def sub(s): return [SB[b] for b in s]
def isub(s): return [ISB[b] for b in s]
def shift(s): return [s[(r+4*((c+r)%4))] for c in range(4) for r in range(4)]
def ishift(s): return [s[(r+4*((c-r)%4))] for c in range(4) for r in range(4)]
def mixcol(c,m): return [gmul(c[0],m[(0-r)%4])^gmul(c[1],m[(1-r)%4])^gmul(c[2],m[(2-r)%4])^gmul(c[3],m[(3-r)%4]) for r in range(4)]
def mix(s): return [b for c in range(4) for b in mixcol(s[4*c:4*c+4],[2,3,1,1])]
def imix(s): return [b for c in range(4) for b in mixcol(s[4*c:4*c+4],[14,11,13,9])]
def ark(s,k): return [a^b for a,b in zip(s,k)]
def expand(key):
    nk=len(key)//4; nr=nk+6; w=[list(key[4*i:4*i+4]) for i in range(nk)]; rc=1
    for i in range(nk,4*(nr+1)):
        t=list(w[i-1])
        if i%nk==0:
            t=t[1:]+t[:1]; t=[SB[b] for b in t]; t[0]^=rc; rc=xt(rc)
        elif nk>6 and i%nk==4: t=[SB[b] for b in t]
        w.append([a^b for a,b in zip(w[i-nk],t)])
    return w  # list of 4-byte columns
def round_keys(key):
    w=expand(key); return [sum(w[4*r:4*r+4],[]) for r in range(len(w)//4)]
def enc_ops(key):
    rk=round_keys(key); nr=len(rk)-1; ops=[('ark',rk[0])]
    for r in range(1,nr): ops+=[('sub',None),('shift',None),('mix',None),('ark',rk[r])]
    ops+=[('sub',None),('shift',None),('ark',rk[nr])]
    return ops
def dec_ops(key):
    rk=round_keys(key); nr=len(rk)-1; ops=[('ark',rk[nr]),('ishift',None),('isub',None)]
    for r in range(nr-1,0,-1): ops+=[('ark',rk[r]),('imix',None),('ishift',None),('isub',None)]
    ops+=[('ark',rk[0])]
    return ops
F={'sub':sub,'shift':shift,'mix':mix,'isub':isub,'ishift':ishift,'imix':imix}
def run(state, ops, nops=None):
    s=list(state)
    for name,k in ops[:nops]:
        s = ark(s,k) if name=='ark' else F[name](s)
    return s
def enc_prefix_len(nr, rnd, step):
    # scared: round0=[id,id,id,ark]; rounds 1..nr-1=[sub,shift,mix,ark]; round nr=[sub,shift,id,ark]
    if rnd==0: return 1 if step==3 else 0
    base=1+4*(rnd-1)
    if rnd<nr: return base+step+1
    return base+[1,2,2,3][step]
def dec_prefix_len(nr, rnd, step):
    # scared: round0=[ark,id,ishift,isub]; rounds 1..nr-1=[ark,imix,ishift,isub]; round nr=[ark,id,id,id]
    if rnd==0: return [1,1,2,3][step]
    base=3+4*(rnd-1)
    if rnd<nr: return base+step+1
    return base+1


# ------------------------------------------------------------------------------------------------
# convenience API used by the checks
def encrypt(key, block):
    return run(block, enc_ops(key))


def decrypt(key, block):
    return run(block, dec_ops(key))


def nr_of(key):
    return len(key) // 4 + 6


def state_at(key, block, mode, rnd, step):
    """State after scared's (at_round, after_step) stop point, by FIPS-197 operation prefix."""
    nr = nr_of(key)
    if mode == 'encrypt':
        return run(block, enc_ops(key), enc_prefix_len(nr, rnd, step))
    return run(block, dec_ops(key), dec_prefix_len(nr, rnd, step))


FIPS197 = [
    # (key, plaintext, ciphertext)  FIPS-197 Appendix B and C
    ('2b7e151628aed2a6abf7158809cf4f3c', '3243f6a8885a308d313198a2e0370734', '3925841d02dc09fbdc118597196a0b32'),
    ('000102030405060708090a0b0c0d0e0f', '00112233445566778899aabbccddeeff', '69c4e0d86a7b0430d8cdb78070b4c55a'),
    ('000102030405060708090a0b0c0d0e0f1011121314151617', '00112233445566778899aabbccddeeff', 'dda97ca4864cdfe06eaf70a0ec0d7191'),
    ('000102030405060708090a0b0c0d0e0f101112131415161718191a1b1c1d1e1f', '00112233445566778899aabbccddeeff', '8ea2b7ca516745bfeafc49904b496089'),
]


def selftest():
    import json
    import os
    assert SB[0] == 0x63 and SB[0x53] == 0xed and ISB[0x63] == 0
    for k, p, c in FIPS197:
        k, p, c = bytes.fromhex(k), bytes.fromhex(p), bytes.fromhex(c)
        assert bytes(encrypt(k, p)) == c, 'FIPS-197 encrypt vector'
        assert bytes(decrypt(k, c)) == p, 'FIPS-197 decrypt vector'
    # FIPS-197 Appendix A.1: last round key of the 128-bit example
    assert bytes(round_keys(bytes.fromhex('2b7e151628aed2a6abf7158809cf4f3c'))[10]).hex() == 'd014f9a8c9ee2589e13f0cc8b6630ca6'
    # FIPS-197 Appendix C.1 intermediate: round 1 start / after sub bytes
    k = bytes.fromhex('000102030405060708090a0b0c0d0e0f')
    p = bytes.fromhex('00112233445566778899aabbccddeeff')
    assert bytes(state_at(k, p, 'encrypt', 0, 3)).hex() == '00102030405060708090a0b0c0d0e0f0'
    assert bytes(state_at(k, p, 'encrypt', 1, 0)).hex() == '63cab7040953d051cd60e0e7ba70e18c'
    assert bytes(state_at(k, p, 'encrypt', 1, 1)).hex() == '6353e08c0960e104cd70b751bacad0e7'
    assert bytes(state_at(k, p, 'encrypt', 1, 2)).hex() == '5f72641557f5bc92f7be3b291db9f91a'
    path = os.path.join(os.path.dirname(__file__), 'kat', 'aes.json')
    n = 0
    with open(path) as f:
        for k, p, c in json.load(f):
            k, p, c = bytes.fromhex(k), bytes.fromhex(p), bytes.fromhex(c)
            assert bytes(encrypt(k, p)) == c and bytes(decrypt(k, c)) == p, 'KAT mismatch'
            n += 1
    return 'aes-ref-ok(%d kat)' % n
