"""Independent definition of the MIA statistic: mutual information (nats) between histogram bin and value class.

Bins are defined by the configured edges themselves: bin i holds edges[i] <= x < edges[i+1], the last bin also holds
x == edges[-1], everything else is discarded.  Probabilities are count ratios; 0 log 0 = 0.
"""
import bisect
import itertools
import math


def bin_of(x, edges):
    """index of the bin of x, or None when x is out of range (edges: increasing list of Python floats)"""
    if x != x or x < edges[0] or x > edges[-1]:
        return None
    if x == edges[-1]:
        return len(edges) - 2
    return bisect.bisect_right(edges, x) - 1


def candidates(x, edges, delta):
    """admissible bins for x: its exact bin, plus the neighbouring bin when x is within ``delta`` of (but not on) an edge"""
    exact = bin_of(x, edges)
    out = [exact]
    nb = len(edges) - 1
    if delta > 0:
        i = bisect.bisect_left(edges, x)
        for k in (i - 1, i):
            if 0 <= k <= nb:
                e = edges[k]
                if x != e and abs(x - e) <= delta:
                    lower = k - 1 if k > 0 else None
                    upper = k if k < nb else None
                    for c in (lower, upper):
                        if c not in out:
                            out.append(c)
    return out


def mi_from_counts(joint):
    """joint: dict {(bin, class): count>0}.  Returns MI in nats, or None when there is no sample at all."""
    n = sum(joint.values())
    if n == 0:
        return None
    pb, pv = {}, {}
    for (b, v), c in joint.items():
        pb[b] = pb.get(b, 0) + c
        pv[v] = pv.get(v, 0) + c
    terms = []
    for (b, v), c in joint.items():
        if c:
            terms.append((c / n) * math.log((c * n) / (pb[b] * pv[v])))
    return math.fsum(terms)


def entropy_form(joint):
    """the same quantity written as H(B) - H(B|V) (used by the self-test to cross-check mi_from_counts)"""
    n = sum(joint.values())
    pb, pv = {}, {}
    for (b, v), c in joint.items():
        pb[b] = pb.get(b, 0) + c
        pv[v] = pv.get(v, 0) + c
    hb = -math.fsum((c / n) * math.log(c / n) for c in pb.values() if c)
    hbv = 0.0
    for v, cv in pv.items():
        hbv += (cv / n) * -math.fsum((c / cv) * math.log(c / cv) for (b, vv), c in joint.items() if vv == v and c)
    return hb - hbv


def column_mi(xs, labels, classes, edges, delta=0.0, max_ambiguous=3):
    """MI of one (word, sample) column.

    xs: list of Python floats, labels: list of ints, classes: declared class values, edges: list of floats.
    Returns (values, info): values = list of admissible MI values (one when nothing is ambiguous; None entries mean
    'no in-range sample of a declared class'), info = dict(on_edge, out_of_range, ambiguous, too_many).
    """
    cset = set(classes)
    fixed = {}
    amb = []
    info = {'on_edge': 0, 'out_of_range': 0, 'ambiguous': 0, 'undeclared': 0, 'too_many': False}
    eset = set(edges)
    for x, v in zip(xs, labels):
        if v not in cset:
            info['undeclared'] += 1
            continue
        if x in eset:
            info['on_edge'] += 1
        cands = candidates(x, edges, delta)
        if len(cands) == 1:
            b = cands[0]
            if b is None:
                info['out_of_range'] += 1
            else:
                fixed[(b, v)] = fixed.get((b, v), 0) + 1
        else:
            amb.append((cands, v))
    info['ambiguous'] = len(amb)
    if len(amb) > max_ambiguous:
        info['too_many'] = True
        return [], info
    values = []
    for choice in itertools.product(*[c for c, _ in amb]):
        joint = dict(fixed)
        for b, (_, v) in zip(choice, amb):
            if b is not None:
                joint[(b, v)] = joint.get((b, v), 0) + 1
        values.append(mi_from_counts(joint))
    return values, info


def selftest():
    import numpy as np
    rng = np.random.Generator(np.random.PCG64(2024))
    for _ in range(50):
        nb, nc = int(rng.integers(1, 7)), int(rng.integers(1, 6))
        tab = rng.integers(0, 6, size=(nb, nc))
        joint = {(b, v): int(tab[b, v]) for b in range(nb) for v in range(nc) if tab[b, v]}
        if not joint:
            continue
        a, b = mi_from_counts(joint), entropy_form(joint)
        assert abs(a - b) < 1e-12, (a, b)
        assert a > -1e-12
        # independent (product) table -> 0
        r, c = rng.integers(1, 5, size=nb), rng.integers(1, 5, size=nc)
        prod = {(i, j): int(r[i] * c[j]) for i in range(nb) for j in range(nc)}
        assert abs(mi_from_counts(prod)) < 1e-12
    # a class fully determined by the bin: MI = H(V)
    joint = {(0, 0): 3, (1, 1): 5}
    hv = -(3 / 8 * math.log(3 / 8) + 5 / 8 * math.log(5 / 8))
    assert abs(mi_from_counts(joint) - hv) < 1e-12
    e = [0.0, 1.0, 2.0, 3.0]
    assert [bin_of(x, e) for x in (-0.1, 0.0, 0.99, 1.0, 2.5, 3.0, 3.0001)] == [None, 0, 0, 1, 2, 2, None]
    assert candidates(1.0, e, 0.01) == [1] and sorted(candidates(0.995, e, 0.01)) == [0, 1]
    assert candidates(-0.005, e, 0.01) == [None, 0] and candidates(3.005, e, 0.01) == [None, 2]
    return 'mia-ok'
