"""Independent definitions of the statistics scared accumulates (no running-sum formulas shared with the code under test).

Integer-valued input is evaluated with exact Python integers / Fractions; real-valued input with two-pass float64.
Every function returns (value, tol, defined):
  value   float64 array, NaN where the statistic is undefined
  tol     absolute tolerance for a correct implementation that keeps exact accumulators and evaluates the final
          formula in a floating type with unit round-off ``eps`` (first-order bound, generous constant)
  defined boolean array, False where the statistic is undefined by definition (zero variance, empty class, …)
"""
import math
from fractions import Fraction

import numpy as np

C_TOL = 32.0


def is_integral(a):
    a = np.asarray(a)
    return a.dtype.kind in 'iub' or bool(np.all(np.isfinite(a)) and np.all(a == np.round(a)) and np.all(np.abs(a) < 2 ** 52))


def _obj(a):
    """exact Python-int object array from an integer-valued array"""
    a = np.asarray(a)
    if a.dtype.kind in 'iub':
        return a.astype(object)
    return np.vectorize(lambda v: int(v), otypes=[object])(a)


def _sqrt_frac(fr):
    """float sqrt of a non-negative Fraction, accurate to ~1 ulp even for huge numerators"""
    if fr == 0:
        return 0.0
    n, d = fr.numerator, fr.denominator
    # scale to keep 2*53 bits in the integer sqrt
    shift = max(0, 120 - (n.bit_length() - d.bit_length()))
    shift += shift & 1
    q = (n << shift) // d
    return math.isqrt(q) / float(1 << (shift // 2)) if shift // 2 < 1000 else math.sqrt(n / d)


# ------------------------------------------------------------------------------------------------
def pearson(traces, data, eps):
    traces = np.asarray(traces)
    data = np.asarray(data)
    n, s = traces.shape
    w = data.shape[1]
    val = np.full((w, s), np.nan)
    tol = np.zeros((w, s))
    defined = np.zeros((w, s), dtype=bool)
    if is_integral(traces) and is_integral(data):
        X, Y = _obj(traces), _obj(data)
        Sx = X.sum(0)
        Sxx = (X * X).sum(0)
        Sy = Y.sum(0)
        Syy = (Y * Y).sum(0)
        Sxy = Y.T.dot(X)
        for j in range(w):
            vy = n * Syy[j] - Sy[j] ** 2
            for i in range(s):
                vx = n * Sxx[i] - Sx[i] ** 2
                if vx == 0 or vy == 0:
                    continue
                num = n * Sxy[j, i] - Sx[i] * Sy[j]
                den = math.sqrt(vx) * math.sqrt(vy) if vx * vy < 2 ** 1000 else float('inf')
                r = num / den
                val[j, i] = r
                defined[j, i] = True
                kx = n * Sxx[i] / vx
                ky = n * Syy[j] / vy
                knum = (abs(n * Sxy[j, i]) + abs(Sx[i] * Sy[j])) / den
                tol[j, i] = C_TOL * eps * (knum + abs(r) * (kx + ky) + 1.0)
    else:
        X = traces.astype('float64')
        Y = data.astype('float64')
        xc = X - X.mean(0)
        yc = Y - Y.mean(0)
        vx = (xc * xc).sum(0)
        vy = (yc * yc).sum(0)
        num = yc.T.dot(xc)
        sxx = (X * X).sum(0)
        syy = (Y * Y).sum(0)
        sxy = np.abs(Y).T.dot(np.abs(X))
        for j in range(w):
            for i in range(s):
                if vx[i] <= 0 or vy[j] <= 0:
                    continue
                den = math.sqrt(vx[i]) * math.sqrt(vy[j])
                r = num[j, i] / den
                val[j, i] = r
                defined[j, i] = True
                kx = sxx[i] / vx[i]
                ky = syy[j] / vy[j]
                knum = 2 * sxy[j, i] / den
                tol[j, i] = C_TOL * eps * (knum + abs(r) * (kx + ky) + 1.0)
    return val, tol, defined


def dpa(traces, bits, eps):
    traces = np.asarray(traces)
    bits = np.asarray(bits)
    n, s = traces.shape
    w = bits.shape[1]
    val = np.full((w, s), np.nan)
    tol = np.zeros((w, s))
    defined = np.zeros((w, s), dtype=bool)
    exact = is_integral(traces)
    X = _obj(traces) if exact else traces.astype('float64')
    for j in range(w):
        m1 = bits[:, j] == 1
        m0 = bits[:, j] == 0
        n1, n0 = int(m1.sum()), int(m0.sum())
        if n1 == 0 or n0 == 0:
            continue
        for i in range(s):
            if exact:
                a = Fraction(int(X[m1, i].sum()), n1)
                b = Fraction(int(X[m0, i].sum()), n0)
                val[j, i] = float(a - b)
                tol[j, i] = C_TOL * eps * (abs(float(a)) + abs(float(b))) + 1e-300
            else:
                a = X[m1, i].mean()
                b = X[m0, i].mean()
                val[j, i] = a - b
                tol[j, i] = C_TOL * eps * (np.abs(X[m1, i]).mean() + np.abs(X[m0, i]).mean()) + 1e-300
            defined[j, i] = True
    return val, tol, defined


# ------------------------------------------------------------------------------------------------
def _class_stats(x, labels, classes, exact):
    """per declared class value: (count, sum, sum of squares) over the traces whose label equals that value"""
    out = []
    for c in classes:
        m = labels == c
        k = int(m.sum())
        if k == 0:
            continue
        xs = x[m]
        if exact:
            out.append((k, int(xs.sum()), int((xs * xs).sum())))
        else:
            out.append((k, xs))
    return out


def partitioned(metric, traces, labels, classes, eps):
    """ANOVA F, NICV, SNR by definition, classes identified by VALUE; duplicates in ``classes`` are not supported."""
    traces = np.asarray(traces)
    labels = np.asarray(labels)
    n, s = traces.shape
    w = labels.shape[1]
    classes = [int(c) for c in classes]
    nb_declared = len(classes)
    val = np.full((w, s), np.nan)
    tol = np.zeros((w, s))
    defined = np.zeros((w, s), dtype=bool)
    exact = is_integral(traces)
    X = _obj(traces) if exact else traces.astype('float64')
    for j in range(w):
        lab = labels[:, j].astype('int64')
        for i in range(s):
            st = _class_stats(X[:, i], lab, classes, exact)
            k = len(st)
            if k == 0:
                continue
            if exact:
                N = sum(c for c, _, _ in st)
                S = sum(sm for _, sm, _ in st)
                SS = sum(sq for _, _, sq in st)
                mean = Fraction(S, N)
                means = [Fraction(sm, c) for c, sm, _ in st]
                within = [Fraction(sq) - Fraction(sm * sm, c) for c, sm, sq in st]   # sum (x-m_i)^2 per class
                between_w = sum(c * (m - mean) ** 2 for (c, _, _), m in zip(st, means))
                sw = sum(within)
                absmag = float(Fraction(SS))  # magnitude of the terms entering cancellations
            else:
                N = sum(c for c, _ in st)
                allx = np.concatenate([xs for _, xs in st])
                mean = allx.mean()
                means = [xs.mean() for _, xs in st]
                within = [((xs - m) ** 2).sum() for (_, xs), m in zip(st, means)]
                between_w = sum(c * (m - mean) ** 2 for (c, _), m in zip(st, means))
                sw = sum(within)
                SS = float((allx * allx).sum())
                absmag = SS
            if metric == 'anova':
                if k < 2 or N - k <= 0 or sw == 0:
                    continue
                num = between_w / (k - 1)
                den = sw / (N - k)
                v = float(num / den)
                kap = absmag / float(sw) + (absmag / float(between_w) if between_w != 0 else 0.0)
                t = C_TOL * eps * (abs(v) * (absmag / float(sw) + 2) * 2 + (absmag / (k - 1)) / float(den))
            elif metric == 'nicv':
                tot = (Fraction(SS, N) - mean ** 2) if exact else float(((allx - mean) ** 2).mean())
                if tot == 0:
                    continue
                num = between_w / N
                v = float(num / tot)
                t = C_TOL * eps * (abs(v) * (absmag / N / float(tot) + 2) * 2 + (absmag / N) / float(tot))
            elif metric == 'snr':
                # classes weighted equally; the common 1/#classes factor cancels between numerator and denominator
                num = sum((m - mean) ** 2 for m in means)
                den = sum(wi / c for wi, (c, *_rest) in zip(within, st))     # sum of population variances
                if den == 0:
                    continue
                v = float(num / den)
                msq = sum(float(m) ** 2 for m in means) + k * float(mean) ** 2
                dmag = sum((float(sq) / c) for c, _, sq in st) if exact else sum(float((xs * xs).mean()) for _, xs in st)
                t = C_TOL * eps * (abs(v) * (dmag / float(den) + 2) * 2 + msq / float(den))
            else:
                raise ValueError(metric)
            val[j, i] = v
            tol[j, i] = t + 1e-300
            defined[j, i] = True
    return val, tol, defined


def welch_t(x1, x2, eps):
    """(mean1-mean2)/sqrt(var1/n1+var2/n2), population variances, per column; NaN when the denominator is 0."""
    x1 = np.asarray(x1)
    x2 = np.asarray(x2)
    s = x1.shape[1]
    val = np.full(s, np.nan)
    tol = np.zeros(s)
    defined = np.zeros(s, dtype=bool)
    exact = is_integral(x1) and is_integral(x2)
    for i in range(s):
        if exact:
            a, b = _obj(x1[:, i]), _obj(x2[:, i])
            n1, n2 = len(a), len(b)
            m1, m2 = Fraction(int(a.sum()), n1), Fraction(int(b.sum()), n2)
            q1, q2 = Fraction(int((a * a).sum()), n1), Fraction(int((b * b).sum()), n2)
            v1, v2 = q1 - m1 * m1, q2 - m2 * m2
            d = v1 / n1 + v2 / n2
            if d == 0:
                continue
            sd = _sqrt_frac(d)
            v = float(m1 - m2) / sd
            mag = float(q1) / n1 + float(q2) / n2
            t = C_TOL * eps * (abs(v) * (mag / float(d) + 2) + (abs(float(m1)) + abs(float(m2))) / sd)
        else:
            a, b = x1[:, i].astype('float64'), x2[:, i].astype('float64')
            n1, n2 = len(a), len(b)
            m1, m2 = a.mean(), b.mean()
            v1, v2 = ((a - m1) ** 2).mean(), ((b - m2) ** 2).mean()
            d = v1 / n1 + v2 / n2
            if d <= 0:
                continue
            sd = math.sqrt(d)
            v = (m1 - m2) / sd
            mag = (a * a).mean() / n1 + (b * b).mean() / n2
            t = C_TOL * eps * (abs(v) * (mag / d + 2) + (abs(m1) + abs(m2)) / sd)
        val[i] = v
        tol[i] = t + 1e-300
        defined[i] = True
    return val, tol, defined


# ------------------------------------------------------------------------------------------------
def selftest():
    """Validate the definitions above against scipy on fixed data (harness error if they disagree)."""
    import scipy.stats as ss
    rng = np.random.Generator(np.random.PCG64(12345))
    X = rng.integers(0, 50, size=(40, 3))
    Y = rng.integers(0, 6, size=(40, 2))
    r, _, d = pearson(X, Y, 2 ** -53)
    for j in range(2):
        for i in range(3):
            assert abs(r[j, i] - ss.pearsonr(X[:, i], Y[:, j])[0]) < 1e-12
    Xf = X + rng.normal(size=X.shape)
    r, _, d = pearson(Xf, Y, 2 ** -53)
    assert abs(r[1, 2] - ss.pearsonr(Xf[:, 2], Y[:, 1])[0]) < 1e-12
    for data in (X, Xf):
        f, _, d = partitioned('anova', data, Y, range(6), 2 ** -53)
        for j in range(2):
            for i in range(3):
                groups = [data[Y[:, j] == c, i] for c in range(6) if (Y[:, j] == c).any()]
                assert abs(f[j, i] - ss.f_oneway(*groups)[0]) < 1e-9 * max(1, abs(f[j, i])), (f[j, i], ss.f_oneway(*groups)[0])
        nv, _, _ = partitioned('nicv', data, Y, range(6), 2 ** -53)
        sn, _, _ = partitioned('snr', data, Y, range(6), 2 ** -53)
        j, i = 1, 0
        cls = [c for c in range(6) if (Y[:, j] == c).any()]
        means = np.array([data[Y[:, j] == c, i].mean() for c in cls])
        cnt = np.array([(Y[:, j] == c).sum() for c in cls])
        vars_ = np.array([data[Y[:, j] == c, i].var() for c in cls])
        m = data[:, i].mean()
        assert abs(nv[j, i] - (cnt / cnt.sum() * (means - m) ** 2).sum() / data[:, i].var()) < 1e-12
        assert abs(sn[j, i] - ((means - m) ** 2).mean() / vars_.mean()) < 1e-12
        t, _, _ = welch_t(data[:25], data[25:], 2 ** -53)
        for i in range(3):
            a, b = data[:25, i], data[25:, i]
            ref = (a.mean() - b.mean()) / math.sqrt(a.var() / len(a) + b.var() / len(b))
            assert abs(t[i] - ref) < 1e-10
            # scipy's Welch test uses sample variances: convert
            ref2 = ss.ttest_ind(a, b, equal_var=False)[0]
            conv = (a.mean() - b.mean()) / math.sqrt(a.var(ddof=1) / len(a) + b.var(ddof=1) / len(b))
            assert abs(ref2 - conv) < 1e-9
    B = rng.integers(0, 2, size=(40, 2)).astype('uint8')
    dv, _, _ = dpa(X, B, 2 ** -53)
    assert abs(dv[1, 2] - (X[B[:, 1] == 1, 2].mean() - X[B[:, 1] == 0, 2].mean())) < 1e-12
    return 'stats-ok'
