# independent DES reference from FIPS 46-3 tables (standard row/col S-box layout), bit lists MSB first
IP = [58,50,42,34,26,18,10,2,60,52,44,36,28,20,12,4,62,54,46,38,30,22,14,6,64,56,48,40,32,24,16,8,
      57,49,41,33,25,17,9,1,59,51,43,35,27,19,11,3,61,53,45,37,29,21,13,5,63,55,47,39,31,23,15,7]
FP = [40,8,48,16,56,24,64,32,39,7,47,15,55,23,63,31,38,6,46,14,54,22,62,30,37,5,45,13,53,21,61,29,
      36,4,44,12,52,20,60,28,35,3,43,11,51,19,59,27,34,2,42,10,50,18,58,26,33,1,41,9,49,17,57,25]
E = [32,1,2,3,4,5,4,5,6,7,8,9,8,9,10,11,12,13,12,13,14,15,16,17,16,17,18,19,20,21,20,21,22,23,24,25,24,25,26,27,28,29,28,29,30,31,32,1]
P = [16,7,20,21,29,12,28,17,1,15,23,26,5,18,31,10,2,8,24,14,32,27,3,9,19,13,30,6,22,11,4,25]
PC1 = [57,49,41,33,25,17,9,1,58,50,42,34,26,18,10,2,59,51,43,35,27,19,11,3,60,52,44,36,
       63,55,47,39,31,23,15,7,62,54,46,38,30,22,14,6,61,53,45,37,29,21,13,5,28,20,12,4]
PC2 = [14,17,11,24,1,5,3,28,15,6,21,10,23,19,12,4,26,8,16,7,27,20,13,2,
       41,52,31,37,47,55,30,40,51,45,33,48,44,49,39,56,34,53,46,42,50,36,29,32]
SHIFTS = [1,1,2,2,2,2,2,2,1,2,2,2,2,2,2,1]
S = [
[[14,4,13,1,2,15,11,8,3,10,6,12,5,9,0,7],[0,15,7,4,14,2,13,1,10,6,12,11,9,5,3,8],[4,1,14,8,13,6,2,11,15,12,9,7,3,10,5,0],[15,12,8,2,4,9,1,7,5,11,3,14,10,0,6,13]],
[[15,1,8,14,6,11,3,4,9,7,2,13,12,0,5,10],[3,13,4,7,15,2,8,14,12,0,1,10,6,9,11,5],[0,14,7,11,10,4,13,1,5,8,12,6,9,3,2,15],[13,8,10,1,3,15,4,2,11,6,7,12,0,5,14,9]],
[[10,0,9,14,6,3,15,5,1,13,12,7,11,4,2,8],[13,7,0,9,3,4,6,10,2,8,5,14,12,11,15,1],[13,6,4,9,8,15,3,0,11,1,2,12,5,10,14,7],[1,10,13,0,6,9,8,7,4,15,14,3,11,5,2,12]],
[[7,13,14,3,0,6,9,10,1,2,8,5,11,12,4,15],[13,8,11,5,6,15,0,3,4,7,2,12,1,10,14,9],[10,6,9,0,12,11,7,13,15,1,3,14,5,2,8,4],[3,15,0,6,10,1,13,8,9,4,5,11,12,7,2,14]],
[[2,12,4,1,7,10,11,6,8,5,3,15,13,0,14,9],[14,11,2,12,4,7,13,1,5,0,15,10,3,9,8,6],[4,2,1,11,10,13,7,8,15,9,12,5,6,3,0,14],[11,8,12,7,1,14,2,13,6,15,0,9,10,4,5,3]],
[[12,1,10,15,9,2,6,8,0,13,3,4,14,7,5,11],[10,15,4,2,7,12,9,5,6,1,13,14,0,11,3,8],[9,14,15,5,2,8,12,3,7,0,4,10,1,13,11,6],[4,3,2,12,9,5,15,10,11,14,1,7,6,0,8,13]],
[[4,11,2,14,15,0,8,13,3,12,9,7,5,10,6,1],[13,0,11,7,4,9,1,10,14,3,5,12,2,15,8,6],[1,4,11,13,12,3,7,14,10,15,6,8,0,5,9,2],[6,11,13,8,1,4,10,7,9,5,0,15,14,2,3,12]],
[[13,2,8,4,6,15,11,1,10,9,3,14,5,0,12,7],[1,15,13,8,10,3,7,4,12,5,6,11,0,14,9,2],[7,11,4,1,9,12,14,2,0,6,10,13,15,3,5,8],[2,1,14,7,4,10,8,13,15,12,9,0,3,5,6,11]]]
def bits(bs, n=8): return [(b >> (n-1-i)) & 1 for b in bs for i in range(n)]
def pack(bl, n=8): return [int(''.join(map(str, bl[i:i+n])), 2) for i in range(0, len(bl), n)]
def perm(bl, t): return [bl[i-1] for i in t]
def xor(a,b): return [x^y for x,y in zip(a,b)]
def schedule(key8):
    cd = perm(bits(key8), PC1); c, d = cd[:28], cd[28:]; ks=[]
    for s in SHIFTS:
        c = c[s:]+c[:s]; d = d[s:]+d[:s]; ks.append(perm(c+d, PC2))
    return ks  # 16 x 48 bits
def sbox(b48):
    out=[]
    for i in range(8):
        six = b48[6*i:6*i+6]; row = six[0]*2+six[5]; col = int(''.join(map(str,six[1:5])),2)
        out += bits([S[i][row][col]], 4)
    return out
def invP(b32):
    out=[0]*32
    for i,t in enumerate(P): out[t-1] = b32[i]
    return out
def des_trace(block8, ks, decrypt=False, l0r0=None):
    """returns dict of intermediates per round; ks list of 16x48 bits in encryption order"""
    lr = perm(bits(block8), IP) if l0r0 is None else l0r0
    L, R = lr[:32], lr[32:]; tr=[]
    keys = ks[::-1] if decrypt else ks
    for r in range(16):
        e = perm(R, E); a = xor(e, keys[r]); s = sbox(a); p = perm(s, P); nR = xor(L, p)
        tr.append(dict(L=L, R=R, E=e, A=a, S=s, P=p, nL=R, nR=nR))
        L, R = R, nR
    pre = R + L
    return tr, pre, pack(perm(pre, FP))


# ------------------------------------------------------------------------------------------------
# convenience API used by the checks
def words(bl, n):
    """bit list -> list of n-bit words"""
    return pack(bl, n)


def split_keys(key):
    """8/16/24 master bytes -> list of three 16x48-bit schedules (EDE order K1,K2,K3)"""
    ks = [schedule(key[i:i + 8]) for i in range(0, len(key), 8)]
    if len(ks) == 1:
        return ks
    if len(ks) == 2:
        return [ks[0], ks[1], ks[0]]
    return ks


def expanded_to_schedules(exp):
    """128/256/384 expanded bytes (16 rounds x 8 six-bit words per DES) -> list of schedules as bit lists"""
    out = []
    for i in range(0, len(exp), 128):
        part = exp[i:i + 128]
        out.append([bits(part[8 * r:8 * r + 8], 6) for r in range(16)])
    if len(out) == 2:
        out = [out[0], out[1], out[0]]
    return out


def schedule_words(key8):
    """scared format of a DES key schedule: 16 x 8 six-bit words"""
    return [pack(k, 6) for k in schedule(key8)]


def passes(schedules, mode):
    """list of (schedule, decrypt_flag) in execution order for DES/TDES EDE"""
    if len(schedules) == 1:
        return [(schedules[0], mode == 'decrypt')]
    k1, k2, k3 = schedules
    if mode == 'encrypt':
        return [(k1, False), (k2, True), (k3, False)]
    return [(k3, True), (k2, False), (k1, True)]


def crypt(block8, schedules, mode):
    b = list(block8)
    for ks, dec in passes(schedules, mode):
        _, _, b = des_trace(b, ks, decrypt=dec)
    return b


def stop_point(block8, schedules, mode, at_des, rnd, step):
    """Intermediate value scared documents for (at_des, at_round, after_step), in scared's word format."""
    b = list(block8)
    ps = passes(schedules, mode)
    for ks, dec in ps[:at_des]:
        _, _, b = des_trace(b, ks, decrypt=dec)
    ks, dec = ps[at_des]
    tr, pre, out = des_trace(b, ks, decrypt=dec)
    t = tr[rnd]
    if step == 0:
        return pack(t['L'] + t['R'])
    if step == 1:
        return pack(t['E'], 6)
    if step == 2:
        return pack(t['A'], 6)
    if step == 3:
        return pack(t['S'], 4)
    if step == 4:
        return pack(t['P'] + [0] * 32)
    if step == 5:
        return pack(t['nR'] + t['R'])
    if step == 6:
        return pack(t['nL'] + t['nR'])
    if step == 7:
        return pack(invP(t['nR']), 4)
    if step == 8:
        return pack(invP(xor(t['R'], t['nR'])), 4)
    if step == 9:
        if rnd < 15:
            return pack(t['nL'] + t['nR'])
        return out
    raise ValueError(step)


VECTORS = [
    # classic worked example and NBS/SP 800-17 style vectors: (key, plaintext, ciphertext)
    ('133457799bbcdff1', '0123456789abcdef', '85e813540f0ab405'),
    ('0101010101010101', '8000000000000000', '95f8a5e5dd31d900'),
    ('0101010101010101', '4000000000000000', 'dd7f121ca5015619'),
    ('8001010101010101', '0000000000000000', '95a8d72813daa94d'),
    ('7ca110454a1a6e57', '01a1d6d039776742', '690f5b0d9a26939b'),
    ('0131d9619dc1376e', '5cd54ca83def57da', '7a389d10354bd271'),
]


def selftest():
    import json
    import os
    for k, p, c in VECTORS:
        k, p, c = bytes.fromhex(k), bytes.fromhex(p), bytes.fromhex(c)
        assert bytes(crypt(p, split_keys(k), 'encrypt')) == c, 'DES encrypt vector'
        assert bytes(crypt(c, split_keys(k), 'decrypt')) == p, 'DES decrypt vector'
    n = 0
    with open(os.path.join(os.path.dirname(__file__), 'kat', 'des.json')) as f:
        for k, p, c in json.load(f):
            k, p, c = bytes.fromhex(k), bytes.fromhex(p), bytes.fromhex(c)
            assert bytes(crypt(p, split_keys(k), 'encrypt')) == c and bytes(crypt(c, split_keys(k), 'decrypt')) == p, 'KAT mismatch'
            n += 1
    return 'des-ref-ok(%d kat)' % n
