"""Hypothesis driver: seeded, database-less, deadline-less runs with a bounded shrink phase.

``run(ctx, strategy, check_case, n)`` draws ``n`` cases from ``strategy`` and executes
``check_case(ctx, case)`` on each.  The first ``Violation`` starts Hypothesis' shrinker; the smallest
failing case seen is recorded in ``ctx.violations`` (we keep our own record so that a shrink budget
can be enforced without depending on Hypothesis' final replay).
"""
import hypothesis
from hypothesis import HealthCheck, Phase, given, settings

from .core import Violation, HarnessError


def run(ctx, strategy, check_case, n, shrink_budget=None, seed_extra=0, phases=None):
    if shrink_budget is None:
        shrink_budget = 400 if ctx.tier == 'quick' else 3000
    state = {'best': None, 'after': 0, 'harness': None}

    def body(case):
        if state['harness'] is not None:
            return
        if state['best'] is not None:
            state['after'] += 1
            if state['after'] > shrink_budget:
                return  # stop exploring: every further candidate "passes", the shrinker winds down
        try:
            ctx.begin(case)
            check_case(ctx, case)
        except Violation as v:
            if v.case is None:
                v.case = case
            state['best'] = v
            ctx.recording = False
            raise
        except (hypothesis.errors.HypothesisException, hypothesis.errors.UnsatisfiedAssumption):
            raise
        except Exception as e:  # harness bug: remember and stop, do not let Hypothesis shrink it as a finding
            import traceback
            state['harness'] = ''.join(traceback.format_exception(type(e), e, e.__traceback__))[-4000:]
            raise

    test = given(strategy)(body)
    test = settings(
        max_examples=n, deadline=None, database=None, derandomize=False, report_multiple_bugs=False,
        print_blob=False,
        suppress_health_check=[HealthCheck.too_slow, HealthCheck.data_too_large, HealthCheck.large_base_example,
                               HealthCheck.function_scoped_fixture],
        phases=phases or (Phase.generate, Phase.target, Phase.shrink),
    )(test)
    test = hypothesis.seed(ctx.seed + seed_extra)(test)
    try:
        test()
    except Violation:
        pass
    except hypothesis.errors.FailedHealthCheck as e:
        raise HarnessError('health check failed (generator bug): %s' % e)
    except Exception as e:  # Flaky etc. after budget exhaustion, or harness error
        if state['harness'] is not None:
            raise HarnessError('exception in harness code:\n' + state['harness'])
        if state['best'] is None:
            raise
    finally:
        ctx.recording = True
    if state['harness'] is not None:
        raise HarnessError('exception in harness code:\n' + state['harness'])
    if state['best'] is not None:
        ctx.violations.append(state['best'])
        return False
    return True


def run_enum(ctx, cases, check_case, max_violations=1):
    """Execute an enumerated (finite) family of cases; stops after ``max_violations`` failures."""
    for case in cases:
        try:
            ctx.begin(case)
            check_case(ctx, case)
        except Violation as v:
            if v.case is None:
                v.case = case
            ctx.violations.append(v)
            if len(ctx.violations) >= max_violations:
                return False
    return True
