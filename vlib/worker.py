"""One shard of a check, executed in its own process:  python -m vlib.worker <prop> <what> <tier> <seed> <out.json>

<what> is  unit:<index>  |  corpus  |  replay:<path>
"""
import glob
import importlib
import json
import os
import sys
import time
import traceback


def main():
    prop, what, tier, seed, out = sys.argv[1:6]
    seed = int(seed)
    here = os.path.dirname(os.path.dirname(os.path.abspath(__file__)))
    from vlib.core import Ctx, Violation, HarnessError, decode, derive_seed
    t0 = time.time()
    res = {'ok': False}
    try:
        mod = importlib.import_module('checks.' + prop.lower())
        trace_file = os.environ.get('VERIF_TRACE_FILE') or None
        if what.startswith('unit:'):
            unit = mod.units(tier)[int(what[5:])]
            ctx = Ctx(prop, unit['name'], derive_seed(seed, prop, unit['name']), tier, trace_file)
            getattr(mod, unit['fn'])(ctx, **unit.get('kwargs', {}))
        else:
            if what == 'corpus':
                files = sorted(glob.glob(os.path.join(here, 'corpus', prop, '*.json')))
                name = 'corpus'
            else:
                files = [what[len('replay:'):]]
                name = 'replay'
            ctx = Ctx(prop, name, seed, tier, trace_file)
            for f in files:
                with open(f) as fh:
                    case = decode(json.load(fh))
                if isinstance(case, dict) and 'case' in case and 'property' in case:
                    case = case['case']
                try:
                    ctx.begin(case)
                    mod.replay(ctx, case)
                except Violation as v:
                    if v.case is None:
                        v.case = case
                    v.msg = '[%s] %s' % (os.path.basename(f), v.msg)
                    ctx.violations.append(v)
        res = ctx.result()
        res['ok'] = True
        # digests of non-trivial cases go to a side file (binary) so the runner can count distinct ones
        with open(out + '.dig', 'wb') as f:
            f.write(b''.join(sorted(ctx.nontrivial)))
    except HarnessError as e:
        res = {'ok': False, 'harness_error': str(e)}
    except Exception as e:  # noqa
        res = {'ok': False, 'harness_error': ''.join(traceback.format_exception(type(e), e, e.__traceback__))[-6000:]}
    res['wall_s'] = time.time() - t0
    with open(out, 'w') as f:
        json.dump(res, f)


if __name__ == '__main__':
    main()
